"""Table rules (T): every cell of the ISO tables the repository keeps as code,
materialised by folding the lookup functions over their whole finite domain
and compared with the independently derived reference."""
import re

from . import fold, peval, reference as ref
from .fold import mk_int as fold_mk_int
from .fold import TOP, mk_enum, mk_int, mk_bool, to_py

VERSION = "version::Version"
ECL = "ecl::ECL"
MODE = "encode::Mode"
MASK = "datamasking::Mask"
MTYPE = "module::ModuleType"
USIZE_MAX = (1 << 64) - 1


def V(v):
    return mk_enum(VERSION, "V%02d" % v)


def L(l):
    return mk_enum(ECL, l)


def M(m):
    return mk_enum(MODE, m)


def mkfolder(f, max_steps=1000000):
    """lookup functions are folded by the partial evaluator (loops over constant tables, fn-pointer tables and
    struct constants fold too); a function it cannot fold yields 'top' and the rule abstains"""
    return peval.PEval(f, max_steps=max_steps)


def anchor_fn(ctx, rid, f, path, inputs=None, output=None, private=False):
    """resolve a function by def path, then by signature shape; fail closed (a private helper that is gone is an abstention:
    the code it held now lives in its callers, which the exact rules evaluate)"""
    fn = f.fn(path)
    if fn is not None:
        ctx.analysed(fn)
        return fn
    if inputs is not None:
        cands = [x for x in f.fns.values()
                 if x.get("inputs") == inputs and x.get("output") == output and x["kind"] in ("Fn", "AssocFn")]
        if len(cands) == 1:
            fn = f.fn(cands[0]["path"])
            ctx.analysed(fn)
            ctx.notes.append("%s: anchor %s resolved by signature to %s" % (rid, path, fn.path))
            return fn
    if private:
        ctx.abstain(rid, "private helper %s no longer exists: its code is read where it now lives by the exact rules only" % path)
        return None
    ctx.anchor_missing(rid, path)
    return None


def division_routine(ctx, rid, f, quiet=False):
    """the block division: `polynomials::division(&[u8], &[u8]) -> [u8; N]`, or - when that private routine has been renamed or given
    an out-parameter - the one crate function called by polynomials::structure that takes two byte slices and yields / fills a byte
    array.  -> (function, "ret" | "out", N) or None (an abstention: the routine is an internal helper, not an anchor)"""
    fn = f.fn("polynomials::division")
    if fn is not None:
        m = re.match(r"^\[u8; (\d+)\]$", fn.raw.get("output") or "")
        if m and (fn.raw.get("inputs") or []) == ["&[u8]", "&[u8]"]:
            ctx.analysed(fn)
            return fn, "ret", int(m.group(1))
    st = f.fn("polynomials::structure")
    cands = []
    if st is not None:
        for c in st.calls():
            g = f.fn(c.name) if c.name else None
            if g is None:
                continue
            ins = g.raw.get("inputs") or []
            if ins[:2] != ["&[u8]", "&[u8]"]:
                continue
            m = re.match(r"^\[u8; (\d+)\]$", g.raw.get("output") or "")
            if m and len(ins) == 2:
                cands.append((g, "ret", int(m.group(1))))
            elif len(ins) == 3:
                m3 = re.match(r"^&mut \[u8; (\d+)\]$", ins[2])
                if m3 and (g.raw.get("output") or "()") == "()":
                    cands.append((g, "out", int(m3.group(1))))
    uniq = {c[0].path: c for c in cands}
    if len(uniq) == 1:
        c = list(uniq.values())[0]
        ctx.analysed(c[0])
        if not quiet:
            ctx.notes.append("%s: the block division is %s (%s)" % (rid, c[0].path, "returns the buffer" if c[1] == "ret" else "fills an out-parameter"))
        return c
    if not quiet:
        ctx.abstain(rid, "the block division routine (polynomials::division, or the function structure() calls with two byte slices) is "
                         "not found: an internal helper renamed or inlined")
    return None


def call_division(pe, div, block, gen):
    """evaluate the division routine on (block, generator) -> Result whose .value is the buffer"""
    fn, form, n = div
    if form == "ret":
        return pe.call(fn.path, [block, gen])
    from .fold import mk_int as _mk
    buf = ("array", tuple(_mk("u8", 0xA5) for _ in range(n)))  # stale content: the routine must not rely on a zeroed buffer
    r = pe.call(fn.path, [block, gen, ("cell", 0)], cells=[buf])
    if r.kind == "ret":
        r.value = r.cells[0] if r.cells else TOP
    return r


def args_for(fn, by_type):
    """order abstract arguments by the function's declared input types"""
    out = []
    used = {}
    for t in fn.raw["inputs"]:
        v = by_type.get(t, TOP)
        if isinstance(v, list):
            i = used.get(t, 0)
            used[t] = i + 1
            v = v[i] if i < len(v) else TOP
        out.append(v)
    return out


def run(F, fn, by_type, **kw):
    return F.run(fn.path, args_for(fn, by_type), **kw)


def where_fn(fn):
    return "%s:%s" % (fn.file, fn.raw["lo"])


def retval(r):
    return to_py(r.value) if r.kind == "ret" else None


def describe(r):
    if r.kind == "ret":
        return to_py(r.value)
    return "%s: %s" % (r.kind, r.why)


# ---------------------------------------------------------------------------
# C02
# ---------------------------------------------------------------------------

def c02_t1(ctx, f):
    rid = "C02.T1"
    ctx.rule(rid, "block layout = ISO Table 9 for all 160 (level, version)")
    fn = anchor_fn(ctx, rid, f, "hardcode::ecc_to_groups", [ECL, VERSION], "[(usize, usize); 2]")
    if not fn:
        return {}
    F = mkfolder(f)
    out = {}
    for l in ref.LEVELS:
        for v in range(1, 41):
            r = run(F, fn, {ECL: L(l), VERSION: V(v)})
            got = retval(r)
            exp = ref.layout(v, l)
            key = "%s/%s/V%02d" % (fn.path, l, v)
            ok = False
            if got and isinstance(got, list) and len(got) == 2 and all(isinstance(g, list) and len(g) == 2 for g in got):
                flat = (got[0][0], got[0][1], got[1][0], got[1][1])
                out[(v, l)] = flat
                # the size of an empty second group is never used (no block is cut with it)
                ok = flat[:3] == exp[:3] and (exp[2] == 0 or flat[3] == exp[3])
                # an equivalent layout with the groups' roles expressed differently is not accepted:
                # the interleaver places group 1 first, so order matters.
            elif r.kind == "ret" and got is not None:
                # another container (a struct with named fields, a flat tuple): which field means what is not this rule's to guess.
                # Read in declaration order it either is the ISO layout, or the rule has no verdict (the interleaving rule C02.R4
                # uses the layout for what it means, on all 160 cells)
                def _ints(x):
                    if isinstance(x, bool):
                        return []
                    if isinstance(x, int):
                        return [x]
                    if isinstance(x, dict):
                        return [y for k in (x.get("fields") or []) for y in _ints(k)]
                    if isinstance(x, (list, tuple)):
                        return [y for k in x for y in _ints(k)]
                    return []
                flat = tuple(_ints(got))
                if len(flat) == 4 and flat[:3] == exp[:3] and (exp[2] == 0 or flat[3] == exp[3]):
                    out[(v, l)] = flat
                    ok = True
                else:
                    if (v, l) == (1, ref.LEVELS[0]):
                        ctx.abstain(rid, "%s returns %s, not [(count, size); 2]: field meanings are not read here" % (fn.path, fn.raw.get("output")), where_fn(fn))
                    continue
            ctx.check(rid, ok, key, where_fn(fn), fn.path, "%s/V%02d" % (l, v),
                      "block layout differs from ISO Table 9", expected=list(exp), found=describe(r),
                      sample="%s/V%02d: found %s expected %s" % (l, v, got, list(exp)))
    return out


def c02_t2(ctx, f):
    rid = "C02.T2"
    ctx.rule(rid, "data codeword counts = sum of block sizes; data_bits = 8x")
    fn = anchor_fn(ctx, rid, f, "hardcode::data_codewords", [VERSION, ECL], "usize")
    fb = anchor_fn(ctx, rid, f, "hardcode::data_bits", [VERSION, ECL], "usize")
    F = mkfolder(f)
    out = {}
    for l in ref.LEVELS:
        for v in range(1, 41):
            exp = ref.data_codewords(v, l)
            if fn:
                r = run(F, fn, {ECL: L(l), VERSION: V(v)})
                got = retval(r)
                out[(v, l)] = got
                ctx.check(rid, got == exp, "%s/%s/V%02d" % (fn.path, l, v), where_fn(fn), fn.path, "%s/V%02d" % (l, v),
                          "data codeword count differs from ISO Table 9 (total - ec*blocks)", expected=exp,
                          found=describe(r), sample="data_codewords %s/V%02d = %s" % (l, v, got))
            if fb:
                r = run(F, fb, {ECL: L(l), VERSION: V(v)})
                got = retval(r)
                ctx.check(rid, got == 8 * exp, "%s/%s/V%02d" % (fb.path, l, v), where_fn(fb), fb.path,
                          "%s/V%02d" % (l, v), "data bit count is not 8 x data codewords", expected=8 * exp,
                          found=describe(r), sample="data_bits %s/V%02d = %s" % (l, v, got))
    return out


def c02_t3(ctx, f, layouts=None, datacw=None, degrees=None):
    rid = "C02.T3"
    ctx.rule(rid, "total codewords / remainder bits per version; total = data + ec*blocks (repo tables agree)")
    fm = anchor_fn(ctx, rid, f, "version::Version::max_bytes", [VERSION], "usize")
    fr = anchor_fn(ctx, rid, f, "version::Version::missing_bits", [VERSION], "usize")
    F = mkfolder(f)
    totals = {}
    for v in range(1, 41):
        if fm:
            r = run(F, fm, {VERSION: V(v)})
            got = retval(r)
            totals[v] = got
            ctx.check(rid, got == ref.total_codewords(v), "%s/V%02d" % (fm.path, v), where_fn(fm), fm.path, "V%02d" % v,
                      "total codeword count differs from floor(raw modules / 8)", expected=ref.total_codewords(v),
                      found=describe(r), sample="max_bytes V%02d = %s" % (v, got))
        if fr:
            r = run(F, fr, {VERSION: V(v)})
            got = retval(r)
            ctx.check(rid, got == ref.remainder_bits(v), "%s/V%02d" % (fr.path, v), where_fn(fr), fr.path, "V%02d" % v,
                      "remainder bit count differs from raw modules mod 8", expected=ref.remainder_bits(v),
                      found=describe(r), sample="missing_bits V%02d = %s" % (v, got))
    # cross-table identity inside the repository's own tables
    if layouts and datacw and degrees and totals:
        for l in ref.LEVELS:
            for v in range(1, 41):
                lay, dc, dg, tot = layouts.get((v, l)), datacw.get((v, l)), degrees.get((v, l)), totals.get(v)
                if None in (lay, dc, dg, tot):
                    continue
                blocks = lay[0] + lay[2]
                ctx.check(rid, tot == dc + dg * blocks, "identity/%s/V%02d" % (l, v), where_fn(fm), fm.path,
                          "%s/V%02d" % (l, v),
                          "repository tables disagree: max_bytes != data_codewords + generator degree x blocks",
                          expected=tot, found=dc + dg * blocks,
                          sample="%s/V%02d: %d = %d + %d*%d" % (l, v, tot, dc, dg, blocks))
    return totals


def c02_t4_c07_t2(ctx, f, rid_deg="C02.T4", rid_coef="C07.T2"):
    ctx.rule(rid_deg, "generator degree for (version, level) = ISO EC codewords per block (160)")
    ctx.rule(rid_coef, "generator coefficients = exponent form of prod (x - alpha^i) (160 cells, 13 polynomials)")
    fn = anchor_fn(ctx, rid_deg, f, "hardcode::get_polynomial", [VERSION, ECL], "&'static [u8]")
    if not fn:
        return {}
    F = mkfolder(f)
    degs = {}
    distinct = {}
    for l in ref.LEVELS:
        for v in range(1, 41):
            r = run(F, fn, {ECL: L(l), VERSION: V(v)})
            got = retval(r)
            ec = ref.ec_per_block(v, l)
            okd = isinstance(got, list) and len(got) == ec + 1
            if isinstance(got, list):
                degs[(v, l)] = len(got) - 1
            ctx.check(rid_deg, okd, "%s/%s/V%02d" % (fn.path, l, v), where_fn(fn), fn.path, "%s/V%02d" % (l, v),
                      "generator degree differs from ISO Table 9", expected=ec,
                      found=(len(got) - 1) if isinstance(got, list) else describe(r),
                      sample="%s/V%02d: degree %s" % (l, v, (len(got) - 1) if isinstance(got, list) else None))
            if isinstance(got, list) and len(got) >= 2:
                d = len(got) - 1
                distinct.setdefault(d, set()).add(tuple(got))
                exp = ref.generator_exponents(d) if d <= 68 else None
                # coefficient check is keyed by the polynomial (degree), reported once per degree
                if exp is not None and got != exp:
                    bad = [i for i in range(len(got)) if got[i] != exp[i]]
                    kk = "%s/degree%d/coef%d" % (fn.path, d, bad[0])
                    if not any(x.key == rid_coef + "/" + kk for x in ctx.violations):
                        ctx.fail(rid_coef, kk, where_fn(fn), fn.path, "degree %d, coefficient index %s" % (d, bad),
                                 "generator literal is not the exponent form of prod_{i<%d}(x - alpha^i)" % d,
                                 expected=exp, found=got)
                else:
                    ctx.ok(rid_coef, "%s/V%02d: degree-%d generator matches definition" % (l, v, d))
    ctx.inventory["generator_degrees_in_use"] = sorted(distinct)
    ctx.floor(rid_coef, "distinct generator polynomials", len(distinct), 13)
    return degs


def c02_r1(ctx, f, totals=None):
    rid = "C02.R1"
    ctx.rule(rid, "work buffers hold every configuration (interleave array, symbol array)")
    fn = anchor_fn(ctx, rid, f, "polynomials::structure")
    if fn:
        out = fn.raw["output"]
        import re
        m = re.match(r"\[u8; (\d+)\]$", out)
        need = max(ref.total_codewords(v) for v in range(1, 41))
        if totals:
            need = max([need] + [t for t in totals.values() if isinstance(t, int)])
        if not m:
            ctx.abstain(rid, "structure no longer returns a fixed array (%s)" % out, where_fn(fn))
        else:
            n = int(m.group(1))
            ctx.check(rid, n >= need, "%s/return-array" % fn.path, where_fn(fn), fn.path, "return type " + out,
                      "interleave buffer shorter than the largest codeword sequence", expected=">= %d" % need, found=n,
                      sample="structure returns [u8; %d] >= %d total codewords of V40" % (n, need))
    for name in ("polynomials::structure::MAX_ERROR", "polynomials::structure::MAX_GROUP_COUNT",
                 "polynomials::structure::MAX_DATABITS"):
        ctx.inventory[name] = f.const(name)


# ---------------------------------------------------------------------------
# C03
# ---------------------------------------------------------------------------

def c03_t1(ctx, f):
    rid = "C03.T1"
    ctx.rule(rid, "side = 17+4v; size->version inverse on the 40 sizes; backing array holds 177x177")
    fs = anchor_fn(ctx, rid, f, "version::Version::size", [VERSION], "usize")
    F = mkfolder(f)
    for v in range(1, 41):
        if fs:
            r = run(F, fs, {VERSION: V(v)})
            ctx.check(rid, retval(r) == ref.side(v), "%s/V%02d" % (fs.path, v), where_fn(fs), fs.path, "V%02d" % v,
                      "symbol side differs from 17+4v", expected=ref.side(v), found=describe(r),
                      sample="size(V%02d) = %s" % (v, retval(r)))
    fn = f.fn("version::Version::from_n")
    if fn is not None:  # only compiled with svg/image/debug_assertions
        ctx.analysed(fn)
        for v in range(1, 41):
            n = ref.side(v)
            r = F.run(fn.path, [mk_int("usize", n)])
            got = retval(r)
            ctx.check(rid, got == "V%02d" % v, "%s/%d" % (fn.path, n), where_fn(fn), fn.path, "n=%d" % n,
                      "size-to-version map is not the inverse of 17+4v", expected="V%02d" % v,
                      found=describe(r), sample="from_n(%d) = %s" % (n, got))
    # backing array
    qa = f.adts.get("qr::QRCode")
    if not qa:
        ctx.anchor_missing(rid, "qr::QRCode")
        return
    import re
    data = [fl for fl in qa["variants"][0]["fields"] if fl["name"] == "data"]
    m = re.match(r"\[module::Module; (\d+)\]$", data[0]["ty"]) if data else None
    if not m:
        ctx.abstain(rid, "QRCode.data is no longer a fixed array of Module")
    else:
        n = int(m.group(1))
        ctx.check(rid, n >= 177 * 177, "qr::QRCode/data-len", "%s:%s" % (qa["file"], qa["line"]), "qr::QRCode",
                  "data: " + data[0]["ty"], "backing array smaller than a version-40 symbol", expected=">= 31329", found=n,
                  sample="QRCode.data has %d >= 177*177 modules" % n)


def c03_t2(ctx, f):
    rid = "C03.T2"
    ctx.rule(rid, "alignment centre rows V02..V40 = ISO Annex E")
    fn = anchor_fn(ctx, rid, f, "version::Version::alignment_patterns_grid", [VERSION], "&'static [usize]")
    if not fn:
        return
    F = mkfolder(f)
    for v in range(2, 41):  # the V01 row is never read (drawing returns first, see C03.T3)
        r = run(F, fn, {VERSION: V(v)})
        got = retval(r)
        ctx.check(rid, got == ref.ALIGN_TABLE[v - 1], "%s/V%02d" % (fn.path, v), where_fn(fn), fn.path, "V%02d" % v,
                  "alignment centre coordinates differ from Annex E", expected=ref.ALIGN_TABLE[v - 1], found=describe(r),
                  sample="V%02d: %s" % (v, got))


def c03_t3(ctx, f):
    rid = "C03.T3"
    ctx.rule(rid, "alignment drawing skipped exactly for V01; version info exactly for V01..V06")
    F = mkfolder(f)
    for path, first_drawn in (("default::create_matrix_alignments", 2), ("default::create_matrix_version_info", 7)):
        fn = anchor_fn(ctx, rid, f, path, ["&mut qr::QRCode", VERSION], "()")
        if not fn:
            continue
        unfold = []
        for v in range(1, 41):
            # a matrix of the version's size (all modules unknown) so that the writes themselves can be followed
            F = mkfolder(f)
            F.record_trace = True
            q = F.call("qr::QRCode::default", [fold_mk_int("usize", 17 + 4 * v)]) if f.fn("qr::QRCode::default") else None
            if q is not None and q.kind == "ret" and q.value != TOP:
                r = F.run(fn.path, args_for(fn, {VERSION: V(v), "&mut qr::QRCode": ("cell", 0)}), cells=[q.value])
                hv = F.heap.version
            else:
                r = run(F, fn, {VERSION: V(v), "&mut qr::QRCode": TOP})
            writes = [e for e in r.trace if e["callee"] and ("index_mut" in e["callee"] or e["callee"].endswith("::fill"))]
            skipped = r.kind == "ret" and not writes
            exp_skipped = v < first_drawn
            if r.kind != "ret" and not writes:
                # the body does not fold and no write was seen: neither drawn nor skipped can be told
                unfold.append((v, describe(r)))
                continue
            ctx.check(rid, skipped == exp_skipped, "%s/V%02d" % (fn.path, v), where_fn(fn), fn.path, "V%02d" % v,
                      "pattern is %s for this version but ISO %s it" % (
                          "skipped" if skipped else "drawn", "omits" if exp_skipped else "requires"),
                      expected="skipped" if exp_skipped else "drawn", found="skipped" if skipped else "drawn",
                      sample="%s V%02d: %s" % (path.split("::")[-1], v, "skipped" if skipped else "drawn"))
        if unfold:
            ctx.abstain(rid, "%s does not fold for %d version(s) (V%02d ...): %s" % (path.split("::")[-1], len(unfold), unfold[0][0], unfold[0][1]),
                        where_fn(fn))


# ---------------------------------------------------------------------------
# C04
# ---------------------------------------------------------------------------

def mask_variants(ctx, rid, f):
    vs = f.enum_variants(MASK)
    if not vs:
        ctx.anchor_missing(rid, MASK)
        return None
    return vs


def c04_t1(ctx, f):
    rid = "C04.T1"
    ctx.rule(rid, "format words = BCH(15,5)(level bits || mask number) xor 0x5412 (32)")
    fn = anchor_fn(ctx, rid, f, "hardcode::ecm_to_format_information", [ECL, MASK], "u16")
    vs = mask_variants(ctx, rid, f)
    if not fn or not vs:
        return
    # mask discriminants are the ISO pattern numbers in declared order
    for i, (name, d) in enumerate(vs):
        exp_name = ref.MASKS[i] if i < 8 else None
        ctx.check(rid, d == i and name == exp_name and len(vs) == 8, "%s/discr/%s" % (MASK, name), "src/datamasking.rs", MASK,
                  name, "mask variant does not carry its ISO pattern number", expected=(exp_name, i), found=(name, d),
                  sample="Mask::%s = %s" % (name, d))
    F = mkfolder(f)
    for l in ref.LEVELS:
        for k, (name, d) in enumerate(vs[:8]):
            r = run(F, fn, {ECL: L(l), MASK: mk_enum(MASK, name)})
            exp = ref.format_word(l, k)
            ctx.check(rid, retval(r) == exp, "%s/%s/%s" % (fn.path, l, name), where_fn(fn), fn.path, "%s/%s" % (l, name),
                      "format information word is not the BCH codeword of (level, mask)", expected=bin(exp),
                      found=bin(retval(r)) if isinstance(retval(r), int) else describe(r),
                      sample="%s/%s: %s" % (l, name, bin(exp)))


def c04_t2(ctx, f):
    rid = "C04.T2"
    ctx.rule(rid, "version words V07..V40 = BCH(18,6)(version) (34)")
    fn = anchor_fn(ctx, rid, f, "version::Version::information", [VERSION], "u32")
    if not fn:
        return
    F = mkfolder(f)
    for v in range(7, 41):  # words below V07 are never read (C03.T3)
        r = run(F, fn, {VERSION: V(v)})
        exp = ref.version_word(v)
        got = retval(r)
        if isinstance(got, dict) and got.get("variant") == "Some" and got.get("fields"):
            got = got["fields"][0]  # an accessor that answers None below V07
        ctx.check(rid, got == exp, "%s/V%02d" % (fn.path, v), where_fn(fn), fn.path, "V%02d" % v,
                  "version information word is not the BCH(18,6) codeword", expected=bin(exp),
                  found=bin(got) if isinstance(got, int) else describe(r), sample="V%02d: %s" % (v, bin(exp)))


# ---------------------------------------------------------------------------
# C05
# ---------------------------------------------------------------------------

def expected_version_fn(l, mode):
    """piecewise: list of (lo, hi, 'Vxx' | None) tiling [0, usize::MAX]"""
    out = []
    prev = -1
    for v in range(1, 41):
        c = ref.capacity(v, l, mode)
        if c > prev:
            out.append((prev + 1, c, "V%02d" % v))
            prev = c
    out.append((prev + 1, USIZE_MAX, None))
    return out


def c05_t1(ctx, f):
    rid = "C05.T1"
    ctx.rule(rid, "capacity thresholds: smallest sufficient version for every length (12 x all usize)")
    fn = anchor_fn(ctx, rid, f, "version::Version::get", [MODE, ECL, "usize"], "std::option::Option<version::Version>")
    if not fn:
        return
    F = mkfolder(f, 4000000)
    leaves_total = 0
    for mode in ref.MODES:
        for l in ref.LEVELS:
            args = args_for(fn, {MODE: M(mode), ECL: L(l), "usize": ("sym",)})
            rs = F.run(fn.path, args, sym=("usize", 0, USIZE_MAX))
            # found piecewise function, merged
            found = []
            bad_leaf = None
            for r in rs:
                if r.kind != "ret":
                    val = "%s: %s" % (r.kind, r.why)
                    bad_leaf = bad_leaf or r
                else:
                    pv = to_py(r.value)
                    if isinstance(pv, dict) and pv.get("variant") == "Some":
                        val = pv["fields"][0]
                    elif isinstance(pv, dict) and pv.get("variant") == "None":
                        val = None
                    else:
                        val = "<?>"
                if found and found[-1][2] == val and found[-1][1] + 1 == r.lo:
                    found[-1] = (found[-1][0], r.hi, val)
                else:
                    found.append((r.lo, r.hi, val))
            leaves_total += len(found)
            # an interval the decision-tree extraction could not follow (e.g. the length is narrowed by a cast there): probe it with
            # concrete lengths - the interval's ends and its start plus every capacity threshold (and one more) - and compare those
            exp_fn = expected_version_fn(l, mode)
            for r in rs:
                if r.kind == "ret" or r.lo is None:
                    continue
                offs = sorted({0, 1, r.hi - r.lo} | {e[1] for e in exp_fn if e[1] < USIZE_MAX} | {e[1] + 1 for e in exp_fn if e[1] < USIZE_MAX})
                for off in offs:
                    n = r.lo + off
                    if n > r.hi:
                        continue
                    pr = F.run(fn.path, args_for(fn, {MODE: M(mode), ECL: L(l), "usize": mk_int("usize", n)}))
                    if pr.kind != "ret":
                        continue
                    pv = to_py(pr.value)
                    val = pv["fields"][0] if isinstance(pv, dict) and pv.get("variant") == "Some" else (None if isinstance(pv, dict) and pv.get("variant") == "None" else "<?>")
                    ev = next(e[2] for e in exp_fn if e[0] <= n <= e[1])
                    if val != ev:
                        ctx.check(rid, False, "%s/%s/%s/probe" % (fn.path, mode, l), where_fn(fn), fn.path, "%s/%s length %d" % (mode, l, n),
                                  "version chosen for this length is not the smallest one whose capacity holds it (the length axis could "
                                  "not be partitioned here - %s - so the interval %d..=%d was probed at concrete lengths)" % (r.why, r.lo, r.hi),
                                  expected=ev, found=val)
                        break
            # tiling
            tiles = bool(found) and found[0][0] == 0 and found[-1][1] == USIZE_MAX and all(
                found[i][1] + 1 == found[i + 1][0] for i in range(len(found) - 1))
            ctx.check(rid, tiles, "%s/%s/%s/tiling" % (fn.path, mode, l), where_fn(fn), fn.path, "%s/%s" % (mode, l),
                      "decision intervals do not tile the length axis", found=found[:3])
            exp = expected_version_fn(l, mode)
            # compare piecewise functions
            i = j = 0
            while i < len(exp) and j < len(found):
                lo = max(exp[i][0], found[j][0])
                hi = min(exp[i][1], found[j][1])
                if lo <= hi:
                    ev, fv = exp[i][2], found[j][2]
                    ctx.check(rid, ev == fv, "%s/%s/%s/len%d-%d" % (fn.path, mode, l, lo, hi), where_fn(fn), fn.path,
                              "%s/%s lengths %d..=%d" % (mode, l, lo, hi),
                              "version chosen for these lengths is not the smallest one whose capacity holds them",
                              expected=ev, found=fv,
                              sample="%s/%s: %s..=%s -> %s" % (mode, l, lo, hi if hi < USIZE_MAX else "usize::MAX", fv))
                if exp[i][1] <= found[j][1]:
                    i += 1
                    if exp[i - 1][1] == found[j][1]:
                        j += 1
                else:
                    j += 1
    ctx.floor(rid, "decision-tree leaves", leaves_total, 12 * 41)


def c05_t2(ctx, f):
    rid = "C05.T2"
    ctx.rule(rid, "Version discriminants are 0..39 in version order")
    vs = f.enum_variants(VERSION)
    if not vs:
        ctx.anchor_missing(rid, VERSION)
        return
    ctx.check(rid, len(vs) == 40, VERSION + "/count", "src/version.rs", VERSION, "variant count", "not 40 versions",
              expected=40, found=len(vs))
    for i, (name, d) in enumerate(vs):
        ctx.check(rid, name == "V%02d" % (i + 1) and d == i, "%s/%s" % (VERSION, name), "src/version.rs", VERSION, name,
                  "discriminant is not version-1 (the gate and table lookups compare/index discriminants)",
                  expected=("V%02d" % (i + 1), i), found=(name, d), sample="%s = %s" % (name, d))
    ev = f.enum_variants(ECL)
    ctx.inventory["ECL"] = ev
    mv = f.enum_variants(MODE)
    ctx.inventory["Mode"] = mv


# ---------------------------------------------------------------------------
# C06
# ---------------------------------------------------------------------------

def c06_t1(ctx, f):
    rid = "C06.T1"
    ctx.rule(rid, "character-count widths = ISO Table 3 (40 x 3)")
    fn = anchor_fn(ctx, rid, f, "hardcode::cci_bits", [VERSION, MODE], "usize")
    if not fn:
        return
    F = mkfolder(f)
    for mode in ref.MODES:
        for v in range(1, 41):
            r = run(F, fn, {VERSION: V(v), MODE: M(mode)})
            exp = ref.cci_bits(v, mode)
            ctx.check(rid, retval(r) == exp, "%s/%s/V%02d" % (fn.path, mode, v), where_fn(fn), fn.path,
                      "%s/V%02d" % (mode, v), "character count indicator width differs from ISO Table 3", expected=exp,
                      found=describe(r), sample="%s/V%02d: %s bits" % (mode, v, retval(r)))


def c06_t4(ctx, f):
    rid = "C06.T4"
    ctx.rule(rid, "bit masks KEEP_LAST[i] = 2^i - 1 for every reachable width (0..16)")
    c = f.consts.get("compact::KEEP_LAST")
    if c is None:
        cands = [x for x in f.consts.values() if x["ty"].startswith("[usize; ") and isinstance(x["val"], list)
                 and len(x["val"]) >= 17 and x["path"].startswith("compact::")]
        c = cands[0] if len(cands) == 1 else None
    if c is None:
        ctx.anchor_missing(rid, "compact::KEEP_LAST")
        return
    val = c["val"]
    ctx.check(rid, len(val) >= 17, c["path"] + "/len", "%s:%s" % (c["file"], c["line"]), c["path"], "length",
              "mask table shorter than the widest constant push (16 bits)", expected=">= 17", found=len(val))
    for i in range(min(17, len(val))):  # entries above 16 are unused on every path
        ctx.check(rid, val[i] == (1 << i) - 1, "%s/%d" % (c["path"], i), "%s:%s" % (c["file"], c["line"]), c["path"],
                  "index %d" % i, "mask entry is not 2^i - 1", expected=(1 << i) - 1, found=val[i],
                  sample="KEEP_LAST[%d] = %d" % (i, val[i]))


# ---------------------------------------------------------------------------
# C07
# ---------------------------------------------------------------------------

def c07_t1(ctx, f):
    rid = "C07.T1"
    ctx.rule(rid, "GF(256)/0x11D exp and log tables (510 reachable cells)")
    dv = division_routine(ctx, rid, f)
    if not dv:
        return
    fn = dv[0]
    # every u8 table constant read in `division`; its role (exponent -> value, value -> exponent) is told by its content:
    # a table that agrees with one of the two GF(256)/0x11D tables on at least 7 entries in 8 is that table, and every
    # reachable entry must then be right; a table that resembles neither is not a field table (not this rule's business)
    tables = {}
    for b in fn.blocks:
        if b["cleanup"]:
            continue
        for i, st in enumerate(b["stmts"]):
            if st["k"] != "assign":
                continue
            rv = st["rv"]
            ops = [rv.get("op"), rv.get("a"), rv.get("b")] + list(rv.get("ops") or [])
            for o in ops:
                if isinstance(o, dict) and o.get("k") == "const" and o.get("item") and isinstance(o.get("val"), list) and len(o["val"]) >= 255 \
                        and all(isinstance(x, int) for x in o["val"]):
                    tables.setdefault(o["item"], (o["val"], st.get("line")))
    roles = {}
    for item, (val, line) in sorted(tables.items()):
        n = len(val)
        exp_idx = [i for i in range(n) if not (n == 256 and i == 255)]  # [u8; 256] indexed modulo 255: cell 255 is unreachable
        log_idx = [x for x in range(1, min(n, 256))]  # zero coefficients are skipped (C07.R1): cell 0 is unreachable
        exp_hits = sum(1 for i in exp_idx if val[i] == ref.GF_EXP[i % 255])
        log_hits = sum(1 for x in log_idx if val[x] == ref.GF_LOG[x]) if n == 256 else 0
        if exp_hits * 8 >= len(exp_idx) * 7:
            roles.setdefault("exp", []).append((item, val, line, exp_idx))
        elif n == 256 and log_hits * 8 >= len(log_idx) * 7:
            roles.setdefault("log", []).append((item, val, line, log_idx))
    if len(roles.get("exp", [])) < 1 or len(roles.get("log", [])) < 1:
        if tables:
            ctx.abstain(rid, "the constant tables read in polynomials::division (%s) do not include both an exponent and a logarithm table of "
                             "GF(256)/0x11D: the field arithmetic is written in a shape this rule does not read" % ", ".join(sorted(tables)),
                        where_fn(fn))
        else:
            ctx.anchor_missing(rid, "exp/log table lookups in polynomials::division")
        return
    for role, lst in roles.items():
        for item, val, line, idxs in lst:
            where = "%s:%s" % (fn.file, line)
            if role == "exp":
                for i in idxs:
                    ctx.check(rid, val[i] == ref.GF_EXP[i % 255], "%s/exp/%d" % (item, i), where, fn.path, "%s[%d]" % (item, i),
                              "exponent-to-value table entry is not alpha^i over 0x11D", expected=ref.GF_EXP[i % 255],
                              found=val[i], sample="%s[%d] = alpha^%d = %d" % (item.split("::")[-1], i, i, val[i]))
            else:
                for x in idxs:
                    ctx.check(rid, val[x] == ref.GF_LOG[x], "%s/log/%d" % (item, x), where, fn.path, "%s[%d]" % (item, x),
                              "value-to-exponent table entry is not log_alpha(x) over 0x11D", expected=ref.GF_LOG[x],
                              found=val[x], sample="%s[%d] = log %d = %d" % (item.split("::")[-1], x, x, val[x]))


def c07_r1(ctx, f, layouts=None, degrees=None):
    rid = "C07.R1"
    ctx.rule(rid, "division buffer obligations: block + generator fit; zero coefficients skipped")
    dv = division_routine(ctx, rid, f)
    if not dv:
        return
    fn = dv[0]
    import re
    m = re.match(r"\[u8; (\d+)\]$", fn.raw["output"] if dv[1] == "ret" else fn.raw["inputs"][2][5:])
    if not m:
        ctx.abstain(rid, "division no longer returns a fixed array", where_fn(fn))
        return
    n = int(m.group(1))
    # the constant K in `start = K - from.len() - by.len()`
    K = None
    for b in fn.blocks:
        if b["cleanup"]:
            continue
        for i, st in enumerate(b["stmts"]):
            if st["k"] == "assign" and not st["p"]["proj"] and fn.local_name(st["p"]["l"]) == "start":
                e = fn.canon_rv(st["rv"], (b["id"], i), 0, None)
                from .mir import subexprs
                ks = [s[2][1] for s in subexprs(e) if s[0] in ("bin", "ovf") and s[1] == "Sub" and s[2][0] == "K"]
                if ks:
                    K = ks[0]
    if K is None:
        ctx.abstain(rid, "offset arithmetic of the division buffer not in the recognised shape (start = K - len - len)",
                    where_fn(fn))
        return
    ctx.check(rid, n >= K - 1, fn.path + "/buffer", where_fn(fn), fn.path, "[u8; %d] vs offset base %d" % (n, K),
              "division buffer shorter than the highest index written (base - 2)", expected=">= %d" % (K - 1), found=n,
              sample="division buffer [u8; %d], offsets relative to %d" % (n, K))
    if layouts and degrees:
        for (v, l), lay in sorted(layouts.items()):
            dg = degrees.get((v, l))
            if dg is None:
                continue
            longest = max(lay[1], lay[3] if lay[2] else 0)
            ctx.check(rid, longest + dg + 1 <= K and dg + 1 >= 1, "%s/fit/%s/V%02d" % (fn.path, l, v), where_fn(fn), fn.path,
                      "%s/V%02d" % (l, v), "block + generator do not fit the division buffer (start would underflow)",
                      expected="<= %d" % K, found=longest + dg + 1,
                      sample="%s/V%02d: block %d + generator %d <= %d" % (l, v, longest, dg + 1, K))
    # zero skip: the tests in the division loop that mention the dividend element rem[i] are evaluated for every byte value
    # of that element; the set of values for which the subtraction step is skipped must be exactly {0} (log 0 is undefined,
    # every other coefficient has a logarithm and must be subtracted)
    from .mir import subexprs as _sub

    def is_elem(e):
        # an element of a non-constant byte buffer
        return e[0] == "index" and e[1][0] != "K"

    def ev(e, x, elem):
        if e == elem:
            return x
        k = e[0]
        if k == "K":
            return e[1]
        if k == "cast":
            v = ev(e[2], x, elem)
            return v if isinstance(v, int) else None
        if k == "index":
            base = ev(e[1], x, elem)
            i = ev(e[2], x, elem)
            if isinstance(base, tuple) and isinstance(i, int) and 0 <= i < len(base):
                return base[i]
            return None
        if k in ("bin", "ovf"):
            a, b = ev(e[2], x, elem), ev(e[3], x, elem)
            if not isinstance(a, int) or not isinstance(b, int):
                return None
            op = e[1]
            try:
                return {"Add": a + b, "Sub": a - b, "Mul": a * b, "BitAnd": a & b, "BitOr": a | b, "BitXor": a ^ b,
                        "Eq": int(a == b), "Ne": int(a != b), "Lt": int(a < b), "Le": int(a <= b), "Gt": int(a > b),
                        "Ge": int(a >= b), "Rem": a % b if b else None, "Div": a // b if b else None}.get(op)
            except Exception:  # noqa: BLE001
                return None
        return None

    tests = []
    for b in range(fn.n):
        bt = fn.bool_test(b) if fn.live[b] else None
        if not bt:
            continue
        c = fn.canon(bt[0], bt[3])
        elems = [e for e in _sub(c) if is_elem(e)]
        if not elems or not fn.in_loop(b):
            continue
        tests.append((b, bt, c, elems[0]))
    xor_blocks = [b["id"] for b in fn.blocks if not b["cleanup"] and any(
        st["k"] == "assign" and st["rv"]["k"] == "bin" and st["rv"]["op"] == "BitXor" for st in b["stmts"])]
    multiway = []
    if not tests:
        # a `match` on the coefficient (switch on the element itself) is a test too, in a form whose skip set is not computed here
        for b in fn.blocks:
            t_ = b["term"]
            if b["cleanup"] or t_["k"] != "switch" or not fn.in_loop(b["id"]):
                continue
            try:
                c_ = fn.canon(t_["op"], (b["id"], len(b["stmts"])))
            except Exception:  # noqa: BLE001
                continue
            if any(is_elem(e) for e in _sub(c_)):
                multiway.append(b["id"])
    if not tests and multiway:
        ctx.abstain(rid, "the dividend coefficient is tested by a multi-way match: skip set not computed here (C07.R3 evaluates blocks with "
                         "zero coefficients)", where_fn(fn))
    elif not tests:
        ctx.check(rid, False, fn.path + "/zero-skip", where_fn(fn), fn.path, "zero test on the dividend element",
                  "no test of the dividend coefficient against zero before the log lookup (log 0 is undefined)")
    elif len(tests) != 1 or len(xor_blocks) != 1:
        ctx.abstain(rid, "division step has %d tests on the dividend element and %d xor stores: skip set not computed" % (
            len(tests), len(xor_blocks)), where_fn(fn))
    else:
        b, bt, c, elem = tests[0]
        # which edge avoids the subtraction step?
        t_reach = fn.reaches(bt[1], xor_blocks[0], avoiding_blocks=(b,)) if bt[1] != b else False
        f_reach = fn.reaches(bt[2], xor_blocks[0], avoiding_blocks=(b,)) if bt[2] != b else False
        if t_reach == f_reach:
            ctx.abstain(rid, "cannot tell which edge of the dividend test skips the subtraction step", fn.where(bt[3]))
        else:
            skip_on = not t_reach  # value of the condition on which the step is skipped
            vals = [ev(c, x, elem) for x in range(256)]
            if any(v is None for v in vals):
                ctx.abstain(rid, "skip condition of the division step is not evaluable over the byte values: %s" % str(c)[:120],
                            fn.where(bt[3]))
            else:
                skipped = [x for x in range(256) if bool(vals[x]) == skip_on]
                ctx.check(rid, skipped == [0], fn.path + "/zero-skip", fn.where(bt[3]), fn.path, "coefficient values skipped by the division step",
                          "the subtraction step must be skipped exactly for a zero coefficient (log 0 is undefined; every other "
                          "coefficient must be subtracted)", expected=[0], found=skipped[:8],
                          sample="division step skipped exactly for coefficient value 0 (decided over all 256 byte values)")


# ---------------------------------------------------------------------------
# C08 (table part)
# ---------------------------------------------------------------------------

def c08_dispatch(ctx, f):
    """fold the dispatcher over the 8 variants -> {variant: (callee, offsets|None)}"""
    rid = "C08.R2"
    ctx.rule(rid, "mask dispatcher total and injective over the 8 patterns")
    fn = anchor_fn(ctx, rid, f, "datamasking::mask", ["&mut qr::QRCode", MASK], "()")
    vs = mask_variants(ctx, rid, f)
    if not fn or not vs:
        return {}
    F = fold.Folder(f)  # the qr argument is unknown here: sweeps are backed out of as opaque calls
    table = {}
    for name, d in vs:
        r = run(F, fn, {MASK: mk_enum(MASK, name), "&mut qr::QRCode": TOP})
        first = [e for e in r.trace if e["depth"] == 1]
        if r.kind not in ("ret",) or len(first) != 1 or not first[0]["callee"]:
            ctx.fail(rid, "%s/%s" % (fn.path, name), where_fn(fn), fn.path, name,
                     "variant is not dispatched to exactly one sweep", found=[e["callee"] for e in first] or describe(r))
            continue
        callee = first[0]["callee"]
        consts = []
        for e in r.trace:
            if e["depth"] == 2 and e["in"] == callee:
                for a in e["args"]:
                    pv = to_py(a)
                    if isinstance(pv, list) and pv and all(isinstance(x, list) for x in pv):
                        consts.append((e["callee"], tuple(tuple(x) for x in pv)))
                break
        table[name] = (callee, consts[0] if consts else None)
        ctx.ok(rid, "%s -> %s%s" % (name, callee, " with %d offsets" % len(consts[0][1]) if consts else ""))
    # injective
    seen = {}
    for name, tgt in table.items():
        if tgt in seen:
            ctx.fail(rid, "%s/injective/%s" % (fn.path, name), where_fn(fn), fn.path, name,
                     "two mask patterns are dispatched to the same sweep", found="%s and %s -> %s" % (seen[tgt], name, tgt[0]))
        else:
            seen[tgt] = name
            ctx.ok(rid)
    # swap detection by identifier stem (positive evidence only)
    stems = {"Checkerboard": "checkerboard", "HorizontalLines": "horizontal", "VerticalLines": "vertical",
             "DiagonalLines": "diagonal", "LargeCheckerboard": "large_checkerboard", "Fields": "field",
             "Diamonds": "diamond", "Meadow": "meadow"}
    for name, (callee, _) in table.items():
        last = callee.split("::")[-1]
        nm = last[len("mask_"):] if last.startswith("mask_") else last
        owners = [k for k, s in stems.items() if nm == s or nm == s + "s"]
        if owners and name not in owners:
            ctx.fail(rid, "%s/swap/%s" % (fn.path, name), where_fn(fn), fn.path, name,
                     "variant is dispatched to the sweep named after a different pattern", expected="mask_" + stems[name],
                     found=last)
        else:
            ctx.ok(rid)
    ctx.floor(rid, "dispatched variants", len(table), 8)
    return table


def c08_t1(ctx, f, table):
    rid = "C08.T1"
    ctx.rule(rid, "offset tables of patterns 5 and 6 = ISO condition on the 6x6 tile interior")
    n = 0
    for name, k in (("Fields", 5), ("Diamonds", 6)):
        ent = table.get(name)
        if not ent or not ent[1]:
            ctx.abstain(rid, "pattern %d is no longer implemented through a constant offset table" % k)
            continue
        callee, offs = ent[1]
        got = set(offs)
        interior = {(r, c) for r in range(1, 6) for c in range(1, 6)}
        exp = {(r, c) for (r, c) in interior if ref.mask_cond(k, r, c)}
        for cell in sorted(interior):
            n += 1
            ctx.check(rid, (cell in got) == (cell in exp), "%s/tile/%d,%d" % (ent[0], cell[0], cell[1]), "src/datamasking.rs",
                      ent[0], "tile cell (%d,%d)" % cell,
                      "offset table %s a tile cell where ISO condition %d is %s" % (
                          "toggles" if cell in got else "omits", k, cell in exp),
                      expected=cell in exp, found=cell in got,
                      sample="pattern %d cell %s: %s" % (k, cell, "toggled" if cell in got else "kept"))
        dup = len(offs) != len(got)
        ctx.check(rid, not dup, "%s/duplicates" % ent[0], "src/datamasking.rs", ent[0], "offset table",
                  "an offset appears twice (double toggle cancels)", found=sorted(offs))
    return n


# ---------------------------------------------------------------------------
# C09
# ---------------------------------------------------------------------------

def c09_t1(ctx, f):
    rid = "C09.T1"
    ctx.rule(rid, "alphanumeric classifier = the ISO 45-character set (all 256 bytes)")
    fn = anchor_fn(ctx, rid, f, "encode::is_qr_alphanumeric", ["u8"], "bool")
    if not fn:
        return
    F = mkfolder(f)
    wrong = {"admits": [], "rejects": []}
    unfold = []
    for c in range(256):
        r = F.run(fn.path, [mk_int("u8", c)])
        exp = chr(c) in ref.ALNUM
        got = retval(r)
        if got is exp:
            ctx.ok(rid, "0x%02x -> %s" % (c, got))
        elif got is True or got is False:
            wrong["admits" if got else "rejects"].append(c)
        else:
            unfold.append((c, describe(r)))
    # one report per direction (a wrong classifier is usually wrong on a family of bytes)
    for how, cs in wrong.items():
        if cs:
            ctx.fail(rid, "%s/%s" % (fn.path, how), where_fn(fn), fn.path, "%d byte(s): %s%s" % (
                len(cs), ", ".join("0x%02x" % c for c in cs[:12]), " ..." if len(cs) > 12 else ""),
                "classifier %s bytes that %s in the alphanumeric set" % (how, "are not" if how == "admits" else "are"),
                expected=(how != "admits"), found=(how == "admits"))
            ctx.rules[rid]["obligations"] += len(cs) - 1
    if unfold:
        ctx.fail(rid, "%s/unfoldable" % fn.path, where_fn(fn), fn.path, "byte 0x%02x %r" % (unfold[0][0], chr(unfold[0][0])),
                 "classifier does not fold", found=unfold[0][1])


def c09_t2(ctx, f):
    rid = "C09.T2"
    ctx.rule(rid, "alphanumeric/digit value tables on their alphabets (45 + 10)")
    fa = anchor_fn(ctx, rid, f, "encode::ascii_to_alphanumeric", ["u8"], "usize")
    fd = anchor_fn(ctx, rid, f, "encode::ascii_to_digit", ["u8"], "usize")
    F = mkfolder(f)

    def _val(r):
        """the converter's value: an integer, or the payload of Some(..) when it reports a rejected byte as None"""
        v = retval(r)
        if isinstance(v, dict) and v.get("variant") == "Some" and v.get("fields"):
            return v["fields"][0]
        return v
    if fa:
        for i, ch in enumerate(ref.ALNUM):
            r = F.run(fa.path, [mk_int("u8", ord(ch))])
            ctx.check(rid, _val(r) == i, "%s/0x%02x" % (fa.path, ord(ch)), where_fn(fa), fa.path, "char %r" % ch,
                      "alphanumeric value differs from ISO Table 5 (or the converter rejects an admitted character)",
                      expected=i, found=describe(r), sample="%r -> %s" % (ch, retval(r)))
    if fd:
        for d in range(10):
            r = F.run(fd.path, [mk_int("u8", 0x30 + d)])
            ctx.check(rid, _val(r) == d, "%s/%d" % (fd.path, d), where_fn(fd), fd.path, "digit %d" % d,
                      "digit value wrong", expected=d, found=describe(r), sample="'%d' -> %s" % (d, retval(r)))


# ---------------------------------------------------------------------------
# C11
# ---------------------------------------------------------------------------

def c11_t1(ctx, f):
    rid = "C11.T1"
    ctx.rule(rid, "dark-ratio penalty table = 10 per 5% step from 50% (reachable cells 3..98)")
    c = f.consts.get("hardcode::PERCENT_SCORE")
    if c is None:
        ctx.anchor_missing(rid, "hardcode::PERCENT_SCORE")
        return
    val = c["val"]
    where = "%s:%s" % (c["file"], c["line"])
    ctx.check(rid, len(val) >= 100, c["path"] + "/len", where, c["path"], "length",
              "table shorter than the 0..=99 percent range (100% is unreachable: light separators exist)",
              expected=">= 100", found=len(val))
    for p in range(3, min(99, len(val))):
        ctx.check(rid, val[p] == ref.percent_score(p), "%s/%d" % (c["path"], p), where, c["path"], "percent %d" % p,
                  "penalty for this dark percentage differs from 10 points per 5% step away from 50%",
                  expected=ref.percent_score(p), found=val[p], sample="PERCENT_SCORE[%d] = %d" % (p, val[p]))


# ---------------------------------------------------------------------------
# C15
# ---------------------------------------------------------------------------

def c15_t1(ctx, f):
    rid = "C15.T1"
    ctx.rule(rid, "module label encoding: new/module_type/value/set/toggle over 8 types x 2 values")
    vs = f.enum_variants(MTYPE)
    if not vs:
        ctx.anchor_missing(rid, MTYPE)
        return
    ctx.check(rid, len(vs) == 8, MTYPE + "/count", "src/module.rs", MTYPE, "variants", "not 8 module types", expected=8,
              found=len(vs))
    fnew = anchor_fn(ctx, rid, f, "module::Module::new", ["bool", MTYPE], "module::Module")
    fty = anchor_fn(ctx, rid, f, "module::Module::module_type", ["module::Module"], MTYPE)
    fval = anchor_fn(ctx, rid, f, "module::Module::value", ["module::Module"], "bool")
    fset = anchor_fn(ctx, rid, f, "module::Module::set", ["&mut module::Module", "bool"], "()")
    ftog = anchor_fn(ctx, rid, f, "module::Module::toggle", ["&mut module::Module"], "()")
    if not (fnew and fty and fval and fset and ftog):
        return
    F0 = mkfolder(f)
    und = []

    class _F:
        """records folds that end undecided so that the obligation depending on them abstains instead of accusing"""
        @staticmethod
        def run(*a, **k):
            r = F0.run(*a, **k)
            if r.kind in ("top", "loop"):
                und.append("%s: %s" % (r.kind, r.why))
            return r
    F = _F

    octx = ctx

    class _Ctx:
        def __getattr__(self, k):
            return getattr(octx, k)

        def check(self, rid_, cond, key, where, fn_, instance, reason, expected=None, found=None, sample=None):
            if und and not cond:
                found = und[-1]
            del und[:]
            return octx.check(rid_, cond, key, where, fn_, instance, reason, expected=expected, found=found, sample=sample)
    ctx = _Ctx()

    def ty_of(m):
        return retval(F.run(fty.path, [m]))

    def val_of(m):
        return retval(F.run(fval.path, [m]))

    for name, d in vs:
        for b in (False, True):
            inst = "%s/%s" % (name, "dark" if b else "light")
            r = F.run(fnew.path, args_for(fnew, {"bool": mk_bool(b), MTYPE: mk_enum(MTYPE, name)}))
            if r.kind != "ret":
                ctx.fail(rid, "module::Module::new/" + inst, where_fn(fnew), fnew.path, inst, "constructor does not fold",
                         found=describe(r))
                continue
            m = r.value
            ctx.check(rid, ty_of(m) == name and val_of(m) is b, "module::Module::new/" + inst, where_fn(fnew), fnew.path, inst,
                      "label or value not recovered from a freshly built module", expected=(name, b),
                      found=(ty_of(m), val_of(m)), sample="new(%s, %s) -> type %s value %s" % (b, name, ty_of(m), val_of(m)))
            for nb in (False, True):
                r2 = F.run(fset.path, [("cell", 0), mk_bool(nb)], cells=[m])
                m2 = r2.cells[0] if r2.kind == "ret" else TOP
                ctx.check(rid, m2 != TOP and ty_of(m2) == name and val_of(m2) is nb,
                          "module::Module::set/%s/%s" % (inst, nb), where_fn(fset), fset.path, inst + " set(%s)" % nb,
                          "set() changes the label or does not store the value", expected=(name, nb),
                          found=(ty_of(m2), val_of(m2)) if m2 != TOP else describe(r2))
            r3 = F.run(ftog.path, [("cell", 0)], cells=[m])
            m3 = r3.cells[0] if r3.kind == "ret" else TOP
            ctx.check(rid, m3 != TOP and ty_of(m3) == name and val_of(m3) is (not b), "module::Module::toggle/" + inst,
                      where_fn(ftog), ftog.path, inst + " toggle()", "toggle() changes the label or does not flip the value",
                      expected=(name, not b), found=(ty_of(m3), val_of(m3)) if m3 != TOP else describe(r3))
    # named constructors: each yields one distinct label and keeps the value
    ctor_types = {}
    stems = {"data": "Data", "finder_pattern": "FinderPattern", "alignment": "Alignment", "timing": "Timing",
             "format": "Format", "version": "Version", "dark": "DarkModule", "empty": "Empty"}
    for path, raw in f.fns.items():
        if path.startswith("module::Module::") and raw.get("inputs") == ["bool"] and raw.get("output") == "module::Module":
            nm = path.split("::")[-1]
            types = set()
            okv = True
            for b in (False, True):
                r = F.run(path, [mk_bool(b)])
                if r.kind == "ret":
                    types.add(ty_of(r.value))
                    okv = okv and val_of(r.value) is b
                else:
                    okv = False
            ctx.analysed(f.fn(path))
            ctx.check(rid, okv and len(types) == 1, path + "/ctor", where_fn(f.fn(path)), path, nm,
                      "constructor does not produce one label with the given value", found=sorted(map(str, types)),
                      sample="%s -> %s" % (nm, sorted(map(str, types))))
            if len(types) == 1:
                t = list(types)[0]
                ctor_types[nm] = t
                if nm in stems and t != stems[nm] and t in stems.values():
                    ctx.fail(rid, path + "/ctor-swap", where_fn(f.fn(path)), path, nm,
                             "constructor labels its module as a different region", expected=stems[nm], found=t)
    ctx.floor(rid, "named module constructors", len(ctor_types), 8)
    ctx.check(rid, len(set(ctor_types.values())) == len(ctor_types), "module::Module/ctor-injective", "src/module.rs",
              "module::Module", "constructors", "two constructors produce the same label", found=ctor_types)
    return ctor_types


def c15_t2(ctx, f, totals=None):
    rid = "C15.T2"
    ctx.rule(rid, "data-module count = 8*total codewords + remainder bits = free modules of the ISO geometry (40)")
    fm = f.fn("version::Version::max_bytes")
    fr = f.fn("version::Version::missing_bits")
    if not fm or not fr:
        ctx.anchor_missing(rid, "version::Version::max_bytes/missing_bits")
        return
    F = mkfolder(f)
    for v in range(1, 41):
        a = retval(F.run(fm.path, [V(v)]))
        b = retval(F.run(fr.path, [V(v)]))
        exp = ref.raw_modules_by_geometry(v)
        ctx.check(rid, a is not None and b is not None and 8 * a + b == exp, "datamodules/V%02d" % v, where_fn(fm), fm.path,
                  "V%02d" % v, "8*max_bytes + missing_bits differs from the number of modules outside function patterns",
                  expected=exp, found=None if a is None or b is None else 8 * a + b,
                  sample="V%02d: 8*%s + %s = %s data modules" % (v, a, b, exp))
