"""Positive fixture: rules whose expected count on fast_qr is zero must fire on /verif/fixture on every run."""
import os

from . import facts as factsmod

FIXTURE = os.path.join(factsmod.VERIF, "fixture")
_done = {}


def selfcheck(ctx):
    """raises MachineryError unless the zero-count rules report the planted constructs"""
    if "ok" in _done:
        ctx.notes.append("fixture self-check: " + _done["ok"])
        return
    from . import core, rules_purity as P, rules_wasm as Wm
    raw = factsmod.run_driver("default", repo=FIXTURE, crate="fqr_fixture", manifest_dir=FIXTURE)
    f = factsmod.Facts(raw)
    sub = core.Ctx("FIXTURE")
    P.p1_statics(sub, f)
    P.p2_unsafe(sub, f)
    P.p3_types(sub, f)
    P.p4_signatures(sub, f)
    P.p5_ambient(sub, f)
    Wm.c17_r1(sub, f)
    Wm.c17_r2(sub, f)
    keys = {v.key for v in sub.violations}
    want = [
        "C14.P1/static/SCRATCH", "C14.P1/static/COUNTER", "C14.P2/unsafe/block/qr::QRBuilder::build#0",
        "C14.P3/qr::QRBuilder/deny/QRBuilder.hits/std::cell::Cell", "C14.P3/qr::QRBuilder/rawptr/QRBuilder.raw",
        "C14.P3/qr::QRBuilder/dyn/QRBuilder.cb", "C14.P3/qr::QRBuilder/deny/QRBuilder.shared/std::rc::Rc",
        "C14.P4/qr::QRCode::to_str/signature", "C14.P5/qr::QRBuilder::build/std::time::Instant::now",
        "C14.P5/qr::QRBuilder::build/std::env::var", "C17.R1/wasm_host::parse/unwrap#0", "C17.R2/wasm_host::pick/v[0]",
    ]
    missing = [w for w in want if w not in keys]
    tls = [k for k in keys if k.startswith("C14.P1/tls/") or "thread_local" in k or "__RUST_STD_INTERNAL_VAL" in k]
    if not tls:
        missing.append("C14.P1 thread-local")
    if missing:
        raise factsmod.MachineryError("fixture self-check failed: rules did not fire on planted constructs %s (got %s)" % (
            missing, sorted(keys)))
    _done["ok"] = "%d planted constructs reported by the zero-count rules" % (len(want) + 1)
    ctx.notes.append("fixture self-check: " + _done["ok"])
