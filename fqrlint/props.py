"""Per-property composition of rules (DESIGN.md section 3 / Appendix E)."""
from . import rules_tables as T
from . import rules_flow as R
from . import rules_encode as E
from . import rules_svg as S
from . import rules_image as I
from . import rules_wasm as Wm
from . import rules_wasm_pe as Wp
from . import rules_purity as P
from . import rules_purity_pe as Pp
from . import rules_score_pe as Sp
from . import rules_gf_pe as Gp
from . import rules_io_pe as Ip
from . import rules_term as Tm
from . import witness, fixture
from .core import soft_if

try:
    from . import rules_index as X
except ImportError:  # deepening rules not present
    X = None
from . import rules_geom as G

TRUSTED = [
    "rustc nightly front end, MIR construction, trait resolution and constant evaluator",
    "std/core/alloc behave as documented",
    "ISO/IEC 18004 reference transcription in fqrlint/reference.py (self-checked on every setup, cross-audited)",
    "the rule engine (fqrlint), tested both ways by selftest/",
]


def x(name, ctx, *a):
    """run a deepening rule if it exists"""
    if X is not None and hasattr(X, name):
        return getattr(X, name)(ctx, *a)
    if hasattr(G, name):
        return getattr(G, name)(ctx, *a)
    return None


def division_all_contents(ctx, f):
    """C07.R4 (every block content); when the division has been rewritten outside the linear-form domain, the concrete basis and
    samples of C07.R3 decide instead"""
    d = Gp.c07_r4(ctx, f)
    if not d:
        d3 = Gp.c07_r3(ctx, f)
        return d3 and None  # decided on the basis only: not "every content"
    return d


def c09_classifier(ctx, f):
    """C09.T1 over the private classifier; when that helper is gone the same clause is decided through best_encoding (C09.R4)"""
    if f.fn("encode::is_qr_alphanumeric") is not None:
        T.c09_t1(ctx, f)
        return
    d = G.c09_r4(ctx, f)
    T.c09_t1(soft_if(ctx, d, "C09.R4"), f)


def tables_core(ctx, f):
    lay = T.c02_t1(ctx, f)
    dcw = T.c02_t2(ctx, f)
    deg = T.c02_t4_c07_t2(ctx, f)
    tot = T.c02_t3(ctx, f, lay, dcw, deg)
    return lay, dcw, deg, tot


def C01(ctx):
    f = ctx.facts("default")
    tables_core(ctx, f)
    T.c04_t1(ctx, f)
    T.c04_t2(ctx, f)
    T.c05_t1(ctx, f)
    T.c05_t2(ctx, f)
    T.c06_t1(ctx, f)
    T.c07_t1(ctx, f)
    division_all_contents(ctx, f)
    d_app = G.c06_r3(ctx, f)
    d_enc = G.c06_r2(ctx, f)
    sctx6 = soft_if(ctx, d_app and d_enc, "C06.R2/R3")
    T.c06_t4(soft_if(ctx, d_app, "C06.R3"), f)
    E.c06_t2(sctx6, f)
    E.c06_t3(sctx6, f)
    E.c06_r1(sctx6, f)
    R.c01_r1(ctx, f)
    G.c04_r5(ctx, f)
    d_pipe = G.c01_r6(ctx, f)
    R.c01_r2(soft_if(ctx, d_pipe, "C01.R6"), f)
    d_sel = G.c11_r8(ctx, f)
    R.c04_r1(soft_if(ctx, d_sel, "C11.R8"), f)
    R.c08_r1(ctx, f, rid="C01.R3")
    T.c03_t1(ctx, f)
    T.c03_t2(ctx, f)
    c09_classifier(ctx, f)
    T.c09_t2(ctx, f)
    d_il = G.c02_r4(ctx, f)
    E.c02_r2(soft_if(ctx, d_il, "C02.R4"), f)
    x("c02_r3", soft_if(ctx, d_il, "C02.R4"), f)
    G.prepare(ctx, f, {"blank", "format", "masks", "place"})
    d_blank = G.c03_r3(ctx, f)
    T.c03_t3(soft_if(ctx, d_blank, "C03.R3"), f)
    G.c04_r3(ctx, f)
    G.c08_r4(ctx, f)
    d_place = G.c01_r5(ctx, f)
    x("c01_r4", soft_if(ctx, d_place, "C01.R5"), f)
    return dict(
        level="other",
        explanation='Round-trip equality over all payloads is not claimed as a whole. Decided exactly, for every payload: every table a reference decoder depends on (block layouts, codeword counts, generators, GF tables, format/version words, count widths, capacity thresholds), every hand-off between pipeline stages, the interleaved codeword sequence for all 160 (version, level) cells (partial evaluation with symbolic data codewords), the placement of codeword bit i on the i-th data module of the ISO zig-zag order (partial evaluation with symbolic bits), the blank symbol for 40 versions, the format writer and the eight mask sweeps at every coordinate. The EC codewords of every block for every block content (C07.R4, GF(2^8)-linear forms over free block bytes). The bit stream of the encoders on the stated (mode, version, level, length) cells with a symbolic payload (C06.R2/R3). Not decided: the encoders at payload lengths between the stated cells.',
    )


def C02(ctx):
    f = ctx.facts("default")
    lay, dcw, deg, tot = tables_core(ctx, f)
    T.c02_r1(ctx, f, tot)
    T.c07_r1(ctx, f, lay, deg)
    T.c07_t1(ctx, f)
    division_all_contents(ctx, f)
    d_il = G.c02_r4(ctx, f)
    E.c02_r2(soft_if(ctx, d_il, "C02.R4"), f)
    x("c02_r3", soft_if(ctx, d_il, "C02.R4"), f)
    # the interleaved sequence reaches the placement unaltered: every codeword as computed, zero remainder bits, 8*codewords+remainder
    G.c01_r6(ctx, f, report_fields=False)
    return dict(
        level="other",
        explanation="Exhaustive table obligations (every cell of the block-layout, data-codeword, total-codeword, remainder-bit and generator tables against values derived from ISO Table 9), buffer sizes from signatures, and the complete output of polynomials::structure for all 160 cells by partial evaluation with symbolic data codewords: data blocks interleaved in ISO order, then each block's own EC codewords (remainder cells of its own division) interleaved, zero after. All-zero syndromes: each block's EC codewords are the remainder of block(x).x^ec by the generator for EVERY block content (C07.R4: the division evaluated with the block bytes as free symbols over GF(2^8)-linear forms, all 13 degrees and every block length in use; field tables and generators exact by C07.T1/T2). Not decided: the corruption corollary (a textbook consequence of zero syndromes and the generator degree, not mechanised).",
    )


def C03(ctx):
    f = ctx.facts("default")
    T.c03_t1(ctx, f)
    T.c03_t2(ctx, f)
    R.c08_r1(ctx, f, rid="C03.R1")
    R.c03_r2(ctx, f)
    ct = T.c15_t1(ctx, f)
    G.prepare(ctx, f, {"blank", "format", "masks", "place"})
    d_blank = G.c03_r3(ctx, f)
    T.c03_t3(soft_if(ctx, d_blank, "C03.R3"), f)
    E.c15_r1(soft_if(ctx, d_blank, "C03.R3"), f, ct)
    G.c04_r3(ctx, f, rid="C03.R4", only_outside=True)
    # "independent of payload and mask" / "nothing outside the square": the two writers that run on the drawn symbol
    # (codeword placement, mask sweeps) leave every function module and everything beyond size x size alone
    G.c08_r4(ctx, f, rid="C03.R5")
    G.c01_r5(ctx, f, rid="C03.R6")
    return dict(
        level="other",
        explanation='The blank symbol is partially evaluated from MIR for all 40 versions and compared module by module (label and fixed value) with an ISO region map: finders, separators, timing, alignment at the Annex E centres, dark module, version information, reserved format strip, light data elsewhere, nothing outside size x size. The only writer of function modules after placement (the format writer) is shown to touch format positions only for every (version, level, mask); every other module write is edge-dominated by module_type()==Data on the same place. Side = 17+4v and its inverse, Annex E rows and the backing array size are table obligations.',
    )


def C04(ctx):
    f = ctx.facts("default")
    T.c04_t1(ctx, f)
    T.c04_t2(ctx, f)
    G.c04_r5(ctx, f)
    d_sel = G.c11_r8(ctx, f)
    R.c04_r1(soft_if(ctx, d_sel, "C11.R8"), f)
    G.c01_r6(ctx, f)
    R.c04_r2(ctx, f)
    R.c05_gate(ctx, f)
    G.prepare(ctx, f, {"blank", "format"})
    d_blank = G.c03_r3(ctx, f, rid="C04.R4")  # version blocks: BCH(18,6) word at the ISO positions, exactly V07..V40
    T.c03_t3(soft_if(ctx, d_blank, "C04.R4"), f)
    x("c04_r3", ctx, f)
    witness.rule(ctx, "C04.W1", "reported parameters are public fields of the documented types", ["w_c04_reported_fields"])
    return dict(
        level="other",
        explanation="All 32 format words and 34 version words are recomputed from the BCH generator polynomials; the format writer is partially evaluated: bit k of the word at both ISO copies, 30 positions, nothing else touched; the version blocks carry the BCH(18,6) word at the ISO positions exactly for V07..V40; the mask written in the format information, the mask applied, the out-parameter and the reported mask have one source; reported level/version/mode are the values used; level defaults to Q; QRCode::new's outcome table.",
    )


def C05(ctx):
    f = ctx.facts("default")
    T.c05_t1(ctx, f)
    T.c05_t2(ctx, f)
    R.c05_gate(ctx, f)
    T.c06_t1(ctx, f)
    d_enc = G.c06_r2(ctx, f) and G.c06_r3(ctx, f)
    E.c06_t3(soft_if(ctx, d_enc, "C06.R2/R3"), f)
    witness.rule(ctx, "C05.W1", "the error type has exactly the two documented variants", ["w_c05_error_is_exhaustive", "w_c10_build_type"])
    return dict(
        level="proof",
        explanation="Version::get is turned into a decision tree over all usize for the 12 (mode, level) pairs and compared with capacities computed from ISO tables; QRCode::new is partially evaluated into an outcome table (smallest sufficient version / forced version if large enough / 'specified version too small' / 'data too big') around every capacity threshold, for forced and automatic mode and given and defaulted level, with the payload symbolic; the error enum has exactly the two documented variants.",
        assumptions=["encoders emit exactly the bit counts the capacity formula assumes (widths decided by C06.T1/T3)"],
    )


def C06(ctx):
    f = ctx.facts("default")
    T.c06_t1(ctx, f)
    T.c09_t2(ctx, f)
    d_app = G.c06_r3(ctx, f)
    d_enc = G.c06_r2(ctx, f)
    sctx = soft_if(ctx, d_app and d_enc, "C06.R2/R3")
    E.c06_t2(sctx, f)
    E.c06_t3(sctx, f)
    T.c06_t4(soft_if(ctx, d_app, "C06.R3"), f)
    E.c06_r1(sctx, f)
    return dict(
        level="other",
        explanation='push_bits/push_u8 are partially evaluated on symbolic words (every bit a symbol) for 20 alignments x widths 0..20: they append exactly the low `len` bits, most significant first. encode() is partially evaluated with a symbolic payload (affine value expressions with ranges, bit-vector words): for each (mode, version, level, length) cell the data codewords equal the ISO 7.4 stream bit for bit - mode indicator, count field of the ISO width, 100a+10b+c / 10a+b / a in 10/7/4 bits, 45a+b / a in 11/6 bits, bytes, terminator min(4, remaining), zero bits to the byte boundary, 0xEC/0x11 alternating to exactly the data capacity (quick: 252 cells; thorough: all 40 versions x 4 levels x 3 modes x lengths 0..7 and capacity-1, capacity). Count widths (120 cells) and the value tables are exhaustive table obligations. The older constant/shape rules remain as cross-checks.',
    )


def C07(ctx):
    f = ctx.facts("default")
    lay, dcw, deg, tot = tables_core(ctx, f)
    d_all = Gp.c07_r4(ctx, f)
    d_div = Gp.c07_r3(ctx, f)
    T.c07_t1(ctx, f)
    T.c07_r1(soft_if(ctx, d_div, "C07.R3"), f, lay, deg)
    x("c07_r2", soft_if(ctx, d_div or d_all, "C07.R3/R4"), f)
    d_il = G.c02_r4(ctx, f)
    E.c02_r2(soft_if(ctx, d_il, "C02.R4"), f)
    x("c02_r3", soft_if(ctx, d_il, "C02.R4"), f)
    return dict(
        level="other",
        explanation="For every block content (C07.R4): polynomials::division evaluated with the block bytes as free symbols, every computed byte a GF(2^8)-linear form over them, the zero-coefficient branch taken both ways and merged, the log/antilog tables recognised by content - for all 13 generator degrees and every block length in use the EC codewords read by the interleaver are exactly the linear forms of the remainder of block(x).x^degree modulo g(x). On concrete contents as a cross-check (C07.R3): polynomials::division, given the crate's own generator for each of the 13 degrees in use and the shortest and longest block length of that degree (all lengths in the thorough tier), returns the GF(2^8)/0x11D remainder of block(x).x^degree by g(x) in the cells the interleaver reads, for every single-nonzero-byte block at the last position (all 255 values: one step of the loop), spread values at the first and a middle position (the step iterated over the whole block), blocks with leading and interior zeros, and fixed dense blocks. Also: 510 reachable table cells, 13 generator polynomials recomputed from the definition, the 160-cell degree map, buffer obligations of the division, the set of coefficient values for which the step is skipped (exactly {0}), the one-step algebra rem[i+j] ^= exp[(g[j] + log rem[i]) mod 255] when the loop is written in a readable shape, and the exact position of every block's EC codewords in the final sequence (C02.R4). When the division is rewritten outside what the linear-form domain can follow (e.g. a conditional subtraction instead of % 255) C07.R4 abstains and the verdict rests on C07.R3's basis and samples plus the step algebra.",
    )


def C08(ctx):
    f = ctx.facts("default")
    R.c08_r1(ctx, f)
    # the sweeps skip what is labelled a function module: the labels are the ISO region map on all 40 versions (the sweeps
    # themselves are judged against the ISO map on the versions of C08.R4)
    T.c03_t2(ctx, f)
    G.c03_r3(ctx, f, rid="C08.R7")
    G.c04_r5(ctx, f)
    d_sel = G.c11_r8(ctx, f)
    R.c04_r1(soft_if(ctx, d_sel, "C11.R8"), f)
    G.prepare(ctx, f, {"blank", "format", "masks", "place"})
    d_masks = G.c08_r4(ctx, f)
    # the encoding region the sweeps act on is the set of data-labelled modules: placement must leave every one of them
    # (remainder-bit modules included) labelled data
    G.c01_r5(ctx, f, rid="C08.R6")
    sctx = soft_if(ctx, d_masks, "C08.R4")
    tbl = T.c08_dispatch(sctx, f)
    T.c08_t1(sctx, f, tbl)
    G.c04_r3(ctx, f, rid="C08.R5", only_outside=True)
    return dict(
        level="other",
        explanation="The eight sweeps are partially evaluated on the blank symbol of each version with every module's value a free symbol: the set of modules negated is exactly the data modules satisfying the ISO Table 10 condition of the pattern (number = enum discriminant), labels and function modules are untouched, whatever the values - at every coordinate (quick: V01..V10; thorough: all 40). Every module write outside blank-symbol construction is guarded by module_type()==Data; the mask applied is the mask recorded; the format writer touches format positions only.",
    )


def C09(ctx):
    f = ctx.facts("default")
    d_conc = G.c09_r4(ctx, f)
    # the classifier is a private helper: when it is gone (inlined, replaced by a bit set) the scan is decided through best_encoding
    T.c09_t1(ctx if f.fn("encode::is_qr_alphanumeric") is not None else soft_if(ctx, d_conc, "C09.R4"), f)
    T.c09_t2(ctx, f)
    R.c09_r1(ctx, f)
    d_scan = G.c09_r3(ctx, f)
    x("c09_r2", soft_if(ctx, d_scan or d_conc, "C09.R3/R4"), f)
    return dict(
        level="other",
        explanation='The classifier is folded over all 256 byte values (= the ISO 45-character set) and agrees with the value tables of the encoders on every admitted byte; best_encoding is partially evaluated over every class pattern (digit / other alphanumeric / other) of inputs up to length 7 (8 in the thorough tier): Numeric iff all digits (including the empty input), Alphanumeric iff all in the set and not all digits, Byte otherwise; best_encoding is also evaluated on ~10 000 concrete inputs (every byte value alone, beside and between members of each class, every triple over class representatives and their aliases modulo 128, inputs of up to 7 090 bytes with one deviating byte at either end or in the middle); the mode used is the forced mode, else best_encoding of the same input.',
    )


def C10(ctx):
    f = ctx.facts("default")
    T.c05_t1(ctx, f)
    R.c05_gate(ctx, f)
    lay, dcw, deg, tot = tables_core(ctx, f)
    T.c02_r1(ctx, f, tot)
    T.c07_r1(ctx, f, lay, deg)
    T.c03_t1(ctx, f)
    T.c06_t4(soft_if(ctx, G.c06_r3(ctx, f), "C06.R3"), f)
    c09_classifier(ctx, f)
    T.c09_t2(ctx, f)
    # the configuration-determined stages cannot panic for any configuration (a failed bounds/overflow assert or an explicit panic
    # met by the partial evaluator is reported by the rule that met it), and they produce what the next stage expects
    G.prepare(ctx, f, {"blank", "format", "masks", "place"})
    d_enc = G.c06_r2(ctx, f)
    d_il = G.c02_r4(ctx, f)
    d_div = division_all_contents(ctx, f)
    d_blank = G.c03_r3(ctx, f)
    d_place = G.c01_r5(ctx, f)
    d_fmt = G.c04_r3(ctx, f)
    d_masks = G.c08_r4(ctx, f)
    # the scorers run on every build with an automatic mask: evaluated on complete small domains, 147 long lines and symbols of
    # real sizes - a panic (a narrowed counter or accumulator overflowing in the debug profile) met there is reported
    d_score = Sp.c11_r9(ctx, f)
    witness.rule(ctx, "C10.W1", "build returns Result<QRCode, QRCodeError>; the error has exactly two variants",
                 ["w_c05_error_is_exhaustive", "w_c10_build_type"])
    ev = {}
    if d_blank and d_fmt:
        ev["default::"] = "C03.R3/C04.R3"
    if d_masks:
        ev["datamasking::"] = "C08.R4"
    if d_place:
        ev["placement::place_on_matrix_data"] = "C01.R5"
    if d_il:
        ev["polynomials::structure"] = "C02.R4"
    ev["version::Version::from_n"] = "C03.T1 (every size Version::size produces; a panic there is reported by that rule)"
    if d_score:
        ev["score::"] = "C11.R9 (complete small domains, long lines, symbols of real sizes)"
    if d_div:
        # every bounds / overflow assert of the division was decided with the block bytes free (none assumed), for every block length
        ev["polynomials::division"] = "C07.R4 (every block content)"
    if d_enc:
        # the encoders were evaluated with a symbolic payload for every length residue and both ends of the capacities: a panic
        # that depends on a payload value stops that evaluation (no verdict), one that depends on the length class is met
        ev["encode::encode_"] = "C06.R2 (all evaluated length cells)"
        ev["encode::"] = "C06.R2 (all evaluated length cells, payloads in the mode's alphabet)"
        ev["<encode::"] = "C06.R2 (all evaluated length cells)"
        # the bit vector the encoders write into is evaluated with them (push_bits, push_u8, fill, ...)
        ev["compact::"] = "C06.R2 (all evaluated length cells)"
        ev["<compact::"] = "C06.R2 (all evaluated length cells)"
    # lookup functions folded over their whole (version, level) domain by the table rules of this run
    if lay and len(lay) == 160:
        ev["hardcode::ecc_to_groups"] = "C02.T1 (160 cells)"
    if dcw and len(dcw) == 160:
        ev["hardcode::data_codewords"] = "C02.T2 (160 cells)"
    if deg and len(deg) == 160:
        ev["hardcode::get_polynomial"] = "C02.T4/C07.T2 (160 cells)"
    x("c10_r1", ctx, f, ev)
    E.panic_inventory(ctx, f, ["qr::QRBuilder::build"], "build")
    return dict(
        level="other",
        explanation="Panic-freedom for every length is a value-range claim over ~390 compiler-inserted asserts and is not decided. "
                    "Decided are the mechanisms the property is anchored in: the capacity gate dominates all encoding work and its "
                    "thresholds never admit more than capacity (all lengths); every fixed-size buffer is large enough for every "
                    "configuration; only the documented errors exist; the classifier never admits a byte its encoder panics on. "
                    "Decided by evaluation, with every compiler-inserted bounds/overflow assert resolved: the configuration-determined "
                    "stages (blank symbol, format writer, placement, mask sweeps, interleaving) for every configuration and every "
                    "payload; the GF division for every block content of every block length in use (C07.R4); the encoders on the "
                    "evaluated (mode, version, level, length) cells, including the capacity of every level of V40 and lengths around "
                    "2^8..2^12 (C06.R2). the scorers on complete small domains, 147 long lines and symbols of real sizes (C11.R9). Not decided: the encoders at other lengths, the scorers on arbitrary symbols. "
                    "Evidence lists the explicit panic sites reachable from build and the assert inventory (no verdict).",
    )


def C11(ctx):
    f = ctx.facts("default")
    d_score = Sp.c11_r9(ctx, f)  # first: it tells C11.R8 whether the scorer is exact in every argument or may cut at a bound
    G.c04_r5(ctx, f)
    d_sel = G.c11_r8(ctx, f)
    # R2 (each candidate ranked by its own penalty) stays a hard rule: it carries the known finding D1
    R.c11_rules(soft_if(soft_if(ctx, d_sel, "C11.R8", only={"C11.R1", "C11.R3", "C11.R4"}), d_score, "C11.R9", only={"C11.R5"}), f)
    G.c11_d1_if_missing(ctx, f)
    T.c11_t1(ctx, f)
    x("c11_r6", soft_if(ctx, d_score, "C11.R9"), f)
    x("c11_r7", ctx, f)
    return dict(
        level="other",
        explanation="Selection (C11.R8, by partial evaluation with an oracle for the penalties): all eight masks are tried on the placed "
                    "matrix, the emitted mask has minimal penalty (first minimum on ties) unless one is forced, and it is the mask "
                    "written, applied and reported. Penalty terms (C11.R9, by partial evaluation on complete small domains): "
                    "score::line on every line up to length 11 of data modules and every mixed-label line up to length 6, the 2x2 "
                    "block term on every 2x2 symbol and 3x3 families, the dark-ratio step on every percentage 0..99, and the total "
                    "as rows + columns + blocks + ratio of (candidate, second argument); longer lines follow from the uniform loop "
                    "body, which is not separately proved. Shape rules: every argument of the penalty depends on the masked "
                    "candidate (R2), candidate freshness across iterations (R7), the dark-ratio table on reachable cells (T1). "
                    "KNOWN FINDING D1: the column terms are computed on an unmasked transposed copy.",
    )


def C12(ctx):
    f = ctx.facts("svg")
    d_doc = G.c12_r7(ctx, f)
    d_img = G.c12_r9(ctx, f)
    S.c12_r1(soft_if(ctx, d_img, "C12.R9"), f)
    S.c12_r2(soft_if(ctx, d_doc, "C12.R7"), f)
    S.c12_r3(ctx, f)
    S.c12_r4(ctx, f, image_decided=bool(d_img))
    d_col = S.c12_r8(ctx, f)
    S.c12_r5(soft_if(ctx, d_col, "C12.R8"), f)
    S.c12_r6(soft_if(ctx, d_doc, "C12.R7"), f)
    S.c12_t1(ctx, f)
    return dict(
        level="other",
        explanation="Injection: forward taint from the image option to the returned markup must pass an attribute escaper recognised by its decision table. The whole document is partially evaluated with symbolic module values for 40 (version, margin, layer program) configurations: square viewBox/background of side size+2*margin in the background colour, one path per layer, exactly one sub-path slot per module taken iff that module is dark and anchored inside the module's cell, each layer filled (stroked) with its colour else the module colour, no other markup. rgba2hex's format templates are decoded (two zero-padded lower-hex digits, alpha iff != 255); commands/colours grow together; every part of the skeleton is emitted on every path. Free-form colour strings are outside the property.",
    )


def C13(ctx):
    f = ctx.facts("image")
    d_fwd = Pp.c13_r3(ctx, f)
    I.c13_r1(soft_if(ctx, d_fwd, "C13.R3"), f)
    I.c13_t1(ctx, f)
    I.c13_r2(ctx, f)
    d_doc = G.c12_r7(ctx, f)
    d_img = G.c12_r9(ctx, f)
    S.c12_r8(ctx, f)
    S.c12_r4(ctx, f, image_decided=bool(d_img))
    S.c12_r6(soft_if(ctx, d_doc, "C12.R7"), f)
    return dict(
        level="other",
        explanation="Pixel values come from resvg/tiny-skia, whose bodies are not local MIR: not decided. Decided: all 11 Builder "
                    "options are forwarded unchanged to the inner SVG builder, the (fit_width, fit_height) -> FitTo decision table "
                    "with its payload flow, one FitTo used for both size and rendering, the SVG rasterised is svg_builder.to_str(qr), "
                    "and bytes/file encode the unmodified pixmap.",
        assumptions=["resvg 0.28 rasterises an SVG path/rect at module centres as the SVG specification says (external code)"],
    )


def C14(ctx):
    fixture.selfcheck(ctx)
    for cfg in ("default", "svg", "image"):
        f = ctx.facts(cfg)
        P.p1_statics(ctx, f)
        P.p2_unsafe(ctx, f)
        P.p3_types(ctx, f)
        P.p4_signatures(ctx, f)
        P.p5_ambient(ctx, f)
        d_alg = Pp.c14_p7(ctx, f)
        P.p6_setters(soft_if(ctx, d_alg, "C14.P7"), f)
    P.build_does_not_mutate(ctx, ctx.facts("default"))
    I.c13_r1(soft_if(ctx, Pp.c13_r3(ctx, ctx.facts("image")), "C13.R3"), ctx.facts("image"))
    witness.rule(ctx, "C14.W", "Send+Sync for the four public types; build and renderers through shared references; setters chain on &mut",
                 ["w_c14_send_sync", "w_c14_build_through_shared_ref", "w_c14_renderers", "w_c14_setters"])
    return dict(
        level="proof",
        explanation="If the crate has no mutable/interior-mutable/thread-local static (P1), no user-written unsafe (P2), no "
                    "state-bearing type that can hide shared mutable state (P3, type graph through fields and generic arguments), "
                    "entry points that borrow builder and symbol immutably (P4), no ambient-state callee reachable from them (P5), "
                    "and setters that obey `last value wins` and commute pairwise (P7: the setter bodies are evaluated on the "
                    "builders' initial values, two distinct values per parameter, list-appenders excepted; P6: each writes exactly "
                    "its own field from its argument), then safe Rust guarantees that "
                    "build and the renderers are functions of their argument values on any thread and in any order. Each premise "
                    "is an enumerable fact over three feature configurations; zero-count rules are confirmed to fire on a positive "
                    "fixture crate on every run.",
        assumptions=["std collection/format code is deterministic", "resvg/usvg/tiny-skia keep no global state (external MIR not analysed)",
                     "for non-data: image hrefs usvg reads the referenced file at render time (outside the crate)"],
    )


def C15(ctx):
    f = ctx.facts("default")
    ct = T.c15_t1(ctx, f)
    lay, dcw, deg, tot = tables_core(ctx, f)
    T.c15_t2(ctx, f, tot)
    T.c03_t2(ctx, f)
    R.c08_r1(ctx, f, rid="C15.R2")
    G.prepare(ctx, f, {"blank", "format", "place"})
    d_blank = G.c03_r3(ctx, f, rid="C15.R3")
    T.c03_t3(soft_if(ctx, d_blank, "C15.R3"), f)
    E.c15_r1(soft_if(ctx, d_blank, "C15.R3"), f, ct)
    G.c04_r3(ctx, f, rid="C15.R4", only_outside=True)
    G.c01_r5(ctx, f, rid="C15.R5")
    # the module handed to the shape callbacks: decided exactly by the document rule (slot (y, x) is drawn iff module (y, x) is dark)
    # which module is handed to the shape callback (custom callbacks read its label): the built-in shapes ignore that argument, so
    # the document rule cannot decide it - C12.R2 stays hard here (it abstains by itself on loops it does not read)
    G.c12_r7(ctx, ctx.facts("svg"), rid="C15.R7")
    S.c12_r2(ctx, ctx.facts("svg"))
    witness.rule(ctx, "C15.W1", "callback slot is fn(usize, usize, Module) -> String; ModuleType has the eight documented regions",
                 ["w_c15_callback_type", "w_c15_module_types"])
    return dict(
        level="other",
        explanation="The label encoding is folded over 8 types x 2 values; the blank symbol's label map is partially evaluated for all 40 versions and equals the ISO region map, with the data-module count 8 x codewords + remainder bits; the format writer and codeword placement keep every label (partial evaluation); guarded writes change bit 0 only; the module handed to shape callbacks is the one at (row, column) under the dark test.",
    )


def C16(ctx):
    f = ctx.facts("default")
    d_term = G.c16_r3(ctx, f)
    sctx = soft_if(ctx, d_term, "C16.R3")
    t = Tm.c16_t1(sctx, f)
    Tm.c16_r(sctx, f, t)
    Tm.c16_entry(ctx, f)
    # the rendering of one symbol must not depend on an earlier rendering: no static / thread-local state in the crate
    P.p1_statics(ctx, f, rid="C16.P1")
    return dict(
        level="other",
        explanation='The terminal renderer is partially evaluated with every module value a free symbol; branches on symbols are evaluated both ways and merged at the post-dominator, so every output glyph is a decision table over the modules consulted. Required: (size+1)/2+1 lines of size+2 glyphs, glyph (top, bottom) of the two modules in place, light border all around, for every matrix content (quick: 8 sizes including V39/V40; thorough: all 40). No static state in the crate.',
    )


def C17(ctx):
    fixture.selfcheck(ctx)
    f = ctx.facts("wasm")
    d_opts = Wp.c17_r6(ctx, f)
    d_mat = Wp.c17_r7(ctx, f)
    Wm.c17_r1(ctx, f)
    Wm.c17_r2(ctx, f)
    Wm.c17_r3(ctx, f)
    Wm.c17_r4(soft_if(ctx, d_opts and d_mat, "C17.R6/R7"), f)
    Wm.c17_r5(soft_if(ctx, d_mat, "C17.R7"), f)
    # the renderer qr_svg hands the builder to is summarised above; its image frame is where option VALUES (sizes, gaps, positions
    # from JavaScript, not validated) meet arithmetic: evaluated on the same facts for ordinary and degenerate values - no panic
    x("c18_r2", ctx, f)
    return dict(
        level="other",
        explanation="The wasm layer is analysed as host-compiled MIR under --cfg fast_qr_verif (no wasm32 target installed; without the "
                    "wasm-bindgen feature the file has no wasm-only code). By partial evaluation (C17.R6): for 97 setter programs "
                    "(well-formed, malformed and partial option values) x 3 contents x (encodable, not encodable), no setter and no "
                    "entry point panics, QRCode::new receives content.as_bytes() with the level/version set, the builder handed to the "
                    "native to_str equals the native builder given the same well-formed settings (unset options keep the native "
                    "defaults), failure gives the empty string; (C17.R7) qr() returns size*size bytes, byte r*size+c the 0/1 value of "
                    "module (r, c), for every module content. For all inputs: no unwrap/expect/panic call in any wasm function or "
                    "closure; every constant Vec index is dominated by a length test of that same vector; option fields always hold "
                    "values of the length the native conversions need. Shared with the native path: C10, C12.",
        assumptions=["wasm-bindgen glue (attribute macros, not compiled here) adds no trap", "margin*2+n does not overflow usize"],
    )


def C18(ctx):
    f = ctx.facts("svg")
    d_frame = x("c18_r2", ctx, f)
    # size / gap / position reach image() through the public setters: whatever order they are called in (C14.P7 on this builder)
    Pp.c14_p7(ctx, f, rid="C18.P7")
    S.c18_t1(soft_if(ctx, d_frame, "C18.R2"), f)
    S.c18_r1(soft_if(ctx, d_frame, "C18.R2"), f)
    return dict(
        level="other",
        explanation="SvgBuilder::image is partially evaluated into the frame and image rectangles for 40 versions x 3 shapes x margins 0..16 (the property's whole default domain): centred, on module boundaries, side non-decreasing with the version, < 40% of the side, clear of the finder zones, image centred inside and not larger; size/gap/position overrides are honoured on a stated lattice. image_placement's tables and the x/y symmetry of the arithmetic are table/structural obligations.",
    )


def C19(ctx):
    f = ctx.facts("image")
    d_io = Ip.c19_r4(ctx, f)
    sctx = soft_if(ctx, d_io, "C19.R4")
    S.c19_fn(sctx, f, "convert::svg::SvgBuilder::to_file", 2)
    S.c19_r3(sctx, f)
    I.c19_image(sctx, f)
    I.c13_r2(sctx, f)
    witness.rule(ctx, "C19.W1", "both to_file error types convert into ConvertError with `?`", ["w_c19_question_mark"])
    return dict(
        level="other",
        explanation="By partial evaluation with std::fs / std::io modelled (C19.R4): SvgBuilder::to_file and ImageBuilder::to_file, run on "
                    "the builders' default values, return Ok with exactly one truncating file at the caller's path holding the "
                    "complete output of to_str (the PNG encoding of to_pixmap) once and in order and nothing left in a BufWriter when "
                    "no operation fails, and return Err when the k-th fallible operation (create/open, write, write_all, write_fmt, "
                    "flush, sync, into_inner, save_png, encode_png) fails, for every k; Write::write is modelled as a partial write. "
                    "Shape rules (all paths, not only the default builder): "
                    "every fallible I/O call's result is consumed only by map_err / `?` / return (never unwrap, ok(), is_ok, drop or "
                    "unused); Ok is dominated by the success edge of every fallible step; the bytes written are as_bytes() of the "
                    "unmodified to_str(self, qr) through write_all to the file created at the caller's path; PNG output encodes "
                    "the unmodified to_pixmap result; error conversions keep their payload and cannot panic.",
        assumptions=["tiny_skia::Pixmap::save_png = encode_png + fs::write (external)"],
    )


PROPS = {
    "C01": C01, "C02": C02, "C03": C03, "C04": C04, "C05": C05, "C06": C06, "C07": C07, "C08": C08, "C09": C09, "C10": C10,
    "C11": C11, "C12": C12, "C13": C13, "C14": C14, "C15": C15, "C16": C16, "C17": C17, "C18": C18, "C19": C19,
}
