"""Per-property composition of rules (DESIGN.md section 3 / Appendix E)."""
from . import rules_tables as T

TRUSTED = [
    "rustc nightly front end, MIR construction, trait resolution and constant evaluator",
    "std/core/alloc behave as documented",
    "ISO/IEC 18004 reference transcription in fqrlint/reference.py (self-checked, cross-audited)",
    "the rule engine (fqrlint), tested both ways by selftest/",
]


def tables_core(ctx, f):
    """the table rules shared by C01/C02/C07/C10"""
    lay = T.c02_t1(ctx, f)
    dcw = T.c02_t2(ctx, f)
    deg = T.c02_t4_c07_t2(ctx, f)
    tot = T.c02_t3(ctx, f, lay, dcw, deg)
    return lay, dcw, deg, tot


def C02(ctx):
    f = ctx.facts("default")
    lay, dcw, deg, tot = tables_core(ctx, f)
    T.c02_r1(ctx, f, tot)
    T.c07_r1(ctx, f, lay, deg)
    return dict(
        level="other",
        explanation="Exhaustive table obligations: every cell of the block-layout, data-codeword, total-codeword, "
                    "remainder-bit and generator tables is folded out of the compiled program (MIR + evaluated constants) "
                    "and compared with values derived from ISO Table 9; buffer sizes are read from signatures. "
                    "The interleaving loops' index arithmetic is not decided.",
    )


PROPS = {
    "C02": C02,
}


from . import rules_flow as R  # noqa: E402


def _dbg(ctx):
    from . import rules_wasm as Wm
    f = ctx.facts("wasm")
    Wm.c17_r1(ctx, f); Wm.c17_r2(ctx, f); Wm.c17_r3(ctx, f); Wm.c17_r4(ctx, f); Wm.c17_r5(ctx, f)
    return dict(level="other", explanation="debug")


PROPS["DBG"] = _dbg
