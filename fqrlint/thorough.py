"""Thorough tier: the same rules on the release-like configurations (code under
cfg(debug_assertions) removed, overflow checks off), the compile_fail witnesses with
their compiling twins, the reference audit against an independent ISO transcription,
an opt-in clippy inventory (cross-reference, never a verdict) and the self-test corpus."""
import glob
import os
import re
import subprocess

from . import facts as factsmod, props, reference as ref, witness


def extend(ctx, prop, info):
    # 1. release-like configurations
    ctx.config_suffix = "-rel"
    try:
        props.PROPS[prop](ctx)
    finally:
        ctx.config_suffix = ""
    # 2. negative witnesses
    if prop in ("C05", "C10", "C14", "C15", "C19", "C04"):
        rid = prop + ".WN"
        ctx.rule(rid, "compile_fail witnesses fail for the stated reason and their twins compile")
        res, rc, tail = witness.doctests(ctx.repo)
        if not res:
            raise factsmod.MachineryError("witness doctests produced no result: " + tail)
        for name, kind, ok in res:
            ctx.check(rid, ok, "doctest/%s/%s" % (name, kind.replace(" ", "_")), "witness/src/lib.rs", name, "%s (%s)" % (name, kind),
                      "a negative witness compiles (the API lost the guarantee) or its twin does not (the witness fails for another reason)",
                      sample="%s: %s ok" % (name, kind))
    # 3. reference audit
    rid = prop + ".AUDIT"
    ctx.rule(rid, "ISO reference self-consistency and agreement with the qrcode 0.12 crate's independent transcription")
    errs = ref.self_check()
    ctx.check(rid, not errs, "reference/self-check", "fqrlint/reference.py", "reference", "self-check", "reference is internally inconsistent",
              found=errs, sample="reference self-check ok")
    audit_qrcode_crate(ctx, rid)
    # 4. clippy inventory (cross-reference only)
    if prop in ("C10", "C17"):
        ctx.inventory["clippy_opt_in"] = clippy_inventory(ctx.repo or factsmod.REPO)
    # 5. self-test corpus
    from . import selftest
    selftest.run_for(ctx, prop)


def audit_qrcode_crate(ctx, rid):
    cands = glob.glob(os.path.expanduser("~/.cargo/registry/src/*/qrcode-0.12.0/src/ec.rs"))
    if not cands:
        ctx.notes.append("qrcode-0.12.0 source not present: independent-transcription audit skipped")
        return
    src = open(cands[0]).read()
    m = re.search(r"static EC_BYTES_PER_BLOCK: \[\[usize; 4\]; 44\] = \[(.*?)\n\];", src, re.S)
    m2 = re.search(r"static DATA_BYTES_PER_BLOCK: \[\[\(usize, usize, usize, usize\); 4\]; 44\] = \[(.*?)\n\];", src, re.S)
    if not m or not m2:
        ctx.notes.append("qrcode-0.12.0 tables not in the expected textual form: audit skipped")
        return
    rows = re.findall(r"\[(\d+), (\d+), (\d+), (\d+)\]", m.group(1))[:40]
    rows2 = re.findall(r"\[\((\d+), (\d+), (\d+), (\d+)\), \((\d+), (\d+), (\d+), (\d+)\), \((\d+), (\d+), (\d+), (\d+)\), \((\d+), (\d+), (\d+), (\d+)\)\]", m2.group(1))[:40]
    n = 0
    for v in range(1, 41):
        for li, l in enumerate(ref.LEVELS):
            if v - 1 < len(rows):
                n += 1
                ctx.check(rid, int(rows[v - 1][li]) == ref.ec_per_block(v, l), "audit/ec/%s/V%02d" % (l, v), cands[0], "qrcode::ec", "%s/V%02d" % (l, v),
                          "my EC-per-block transcription differs from the qrcode crate's", expected=ref.ec_per_block(v, l), found=int(rows[v - 1][li]))
            if v - 1 < len(rows2):
                a = [int(x) for x in rows2[v - 1][4 * li:4 * li + 4]]  # (size1, count1, size2, count2)
                lay = ref.layout(v, l)
                n += 1
                ctx.check(rid, (a[1], a[0], a[3]) == (lay[0], lay[1], lay[2]) and (lay[2] == 0 or a[2] == lay[3]), "audit/layout/%s/V%02d" % (l, v),
                          cands[0], "qrcode::ec", "%s/V%02d" % (l, v), "my derived block layout differs from the qrcode crate's table",
                          expected=list(lay), found=a, sample="%s/V%02d agrees with qrcode 0.12 (%s)" % (l, v, a))
    ctx.notes.append("audited %d cells against qrcode-0.12.0" % n)


def clippy_inventory(repo):
    env = dict(os.environ)
    env["CARGO_TARGET_DIR"] = os.path.join(factsmod.CACHE, "tgt-clippy")
    env["CARGO_NET_OFFLINE"] = "true"
    lints = ["unwrap_used", "expect_used", "panic", "unreachable", "indexing_slicing", "unused_io_amount"]
    cmd = ["cargo", "+nightly", "clippy", "--offline", "--features", "svg", "--message-format=short", "--", "-A", "clippy::all"]
    for l in lints:
        cmd += ["-W", "clippy::" + l]
    try:
        p = subprocess.run(cmd, cwd=repo, env=env, capture_output=True, text=True, timeout=300)
    except Exception as e:  # noqa: BLE001
        return {"error": str(e)}
    counts = {}
    for line in p.stderr.split("\n"):
        m = re.search(r"warning: .*", line)
        if m and "src/" in line:
            for l in lints:
                pass
    for l in lints:
        counts[l] = len(re.findall(r"clippy::" + l, p.stderr))
    # message-format=short does not name the lint; count by message shape instead
    counts["unwrap/expect"] = len(re.findall(r"used `(unwrap|expect)\(\)`", p.stderr))
    counts["indexing"] = len(re.findall(r"(indexing|slicing) may panic", p.stderr))
    counts["panic/unreachable"] = len(re.findall(r"`(panic|unreachable)` should not be present", p.stderr))
    counts["total_warnings"] = len(re.findall(r": warning:", p.stderr))
    return counts
