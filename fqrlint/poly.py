"""Polynomial normal form of canonical integer expressions.

An index/length expression built from +, -, * and constants over opaque atoms is
normalised to a polynomial {monomial: coefficient}.  Two expressions that are
equal as polynomials compute the same value wherever neither overflows, whatever
the association, commutation or distribution the author chose; a polynomial over
the same atoms that differs is a different function.  Anything that is not
+,-,* (division, remainder, shifts, calls) stays an atom, after recursively
normalising its arguments, so `x / 8` and `x % 8` compare structurally.
"""

IGNORED_CASTS = ("IntToInt",)


def _atom_key(a):
    return repr(a)


class Poly:
    def __init__(self, terms=None):
        # terms: {tuple(sorted atom reprs) : (coeff, tuple(atoms))}
        self.t = {}
        if terms:
            for mono, c in terms.items():
                if c:
                    self.t[mono] = c

    @staticmethod
    def const(k):
        return Poly({(): k})

    @staticmethod
    def atom(a):
        return Poly({(a,): 1})

    def __add__(self, o):
        r = dict(self.t)
        for m, c in o.t.items():
            r[m] = r.get(m, 0) + c
        return Poly(r)

    def __neg__(self):
        return Poly({m: -c for m, c in self.t.items()})

    def __sub__(self, o):
        return self + (-o)

    def __mul__(self, o):
        r = {}
        for m1, c1 in self.t.items():
            for m2, c2 in o.t.items():
                m = tuple(sorted(m1 + m2, key=_atom_key))
                r[m] = r.get(m, 0) + c1 * c2
        return Poly(r)

    def __eq__(self, o):
        return isinstance(o, Poly) and self.t == o.t

    def __hash__(self):
        return hash(tuple(sorted(self.t.items(), key=repr)))

    def atoms(self):
        s = []
        for m in self.t:
            for a in m:
                if a not in s:
                    s.append(a)
        return s

    def is_const(self):
        return all(m == () for m in self.t)

    def const_value(self):
        return self.t.get((), 0) if self.is_const() else None

    def key(self):
        return tuple(sorted(((tuple(m), c) for m, c in self.t.items()), key=repr))

    def show(self, names=None):
        names = names or {}
        parts = []
        for m, c in sorted(self.t.items(), key=lambda x: (len(x[0]), repr(x[0]))):
            ms = "*".join(names[a] if a in names else _short(a, names) for a in m)
            if not m:
                parts.append(str(c))
            elif c == 1:
                parts.append(ms)
            elif c == -1:
                parts.append("-" + ms)
            else:
                parts.append("%d*%s" % (c, ms))
        return " + ".join(parts).replace("+ -", "- ") if parts else "0"


OPSYM = {"Rem": "%", "Div": "/", "Shl": "<<", "Shr": ">>", "BitAnd": "&", "BitOr": "|", "BitXor": "^", "Eq": "==", "Ne": "!=",
         "Lt": "<", "Le": "<=", "Gt": ">", "Ge": ">="}


def _is_key(k):
    return isinstance(k, tuple) and all(isinstance(t, tuple) and len(t) == 2 and isinstance(t[0], tuple) and isinstance(t[1], int) for t in k)


def render_key(k, names=None):
    """render a Poly.key() back to text"""
    return Poly({m: c for m, c in k}).show(names) if _is_key(k) else str(k)


def _short(a, names=None):
    if isinstance(a, str):
        return a
    if isinstance(a, tuple) and a:
        if a[0] in OPSYM and len(a) == 3 and _is_key(a[1]) and _is_key(a[2]):
            l, r = render_key(a[1], names), render_key(a[2], names)
            l = "(%s)" % l if len(a[1]) > 1 else l
            r = "(%s)" % r if len(a[2]) > 1 else r
            return "(%s %s %s)" % (l, OPSYM[a[0]], r)
        if a[0] == "index" and len(a) == 3 and _is_key(a[1]) and _is_key(a[2]):
            return "%s[%s]" % (render_key(a[1], names), render_key(a[2], names))
        if a[0] == "call" and len(a) == 3:
            return "%s(%s)" % (str(a[1]).split("::")[-1], ", ".join(render_key(x, names) for x in a[2]))
        if a[0] == "field" and len(a) == 3 and _is_key(a[1]):
            return "%s.%s" % (render_key(a[1], names), a[2])
        if a[0] == "lv":
            return "i%s" % a[1]
    s = repr(a)
    return s if len(s) < 60 else s[:57] + "..."


def normalise(e, rename=None):
    """canonical expression -> Poly.  rename: function(atom_expr) -> replacement atom (hashable) or None"""
    rename = rename or (lambda a: None)

    def go(x):
        if not isinstance(x, tuple) or not x:
            return Poly.atom(x)
        r = rename(x)
        if r is not None:
            return Poly.atom(r)
        k = x[0]
        if k == "K" and isinstance(x[1], int) and not isinstance(x[1], bool):
            return Poly.const(x[1])
        if k in ("bin", "ovf") and x[1] in ("Add", "Sub", "Mul"):
            a, b = go(x[2]), go(x[3])
            return a + b if x[1] == "Add" else (a - b if x[1] == "Sub" else a * b)
        if k == "cast" and x[1] in IGNORED_CASTS:
            return go(x[2])
        if k in ("bin", "ovf"):
            # non-polynomial operator: structural atom over normalised operands
            return Poly.atom((x[1], go(x[2]).key(), go(x[3]).key()))
        if k == "un":
            return Poly.atom((x[1], go(x[2]).key()))
        if k == "call":
            return Poly.atom(("call", x[1], tuple(go(a).key() for a in x[2])))
        if k == "index":
            return Poly.atom(("index", go(x[1]).key(), go(x[2]).key()))
        if k in ("deref", "ref"):
            inner = go(x[1])
            return inner
        if k == "field":
            return Poly.atom(("field", go(x[1]).key(), x[2]))
        return Poly.atom(x)

    return go(e)


def A(name):
    """named atom for writing expected formulas"""
    return Poly.atom(name)


def C(k):
    return Poly.const(k)


def op(name, *args):
    """expected-side non-polynomial operator, mirrors normalise()'s atoms"""
    return Poly.atom((name,) + tuple(a.key() for a in args))


def call(name, *args):
    return Poly.atom(("call", name, tuple(a.key() for a in args)))


def index(base, idx):
    return Poly.atom(("index", base.key(), idx.key()))


def field(base, i):
    return Poly.atom(("field", base.key(), i))
