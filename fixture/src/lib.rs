//! Positive fixture for the rules whose expected instance count on fast_qr is zero
//! (statics, unsafe, interior mutability, ambient state, traps).  Every run of a
//! check that relies on such a rule first confirms that the rule fires here.
#![allow(dead_code, static_mut_refs)]
use std::cell::Cell;
use std::collections::HashMap;
use std::rc::Rc;

pub static mut SCRATCH: usize = 0;
pub static COUNTER: std::sync::atomic::AtomicUsize = std::sync::atomic::AtomicUsize::new(0);
thread_local! { pub static CACHE: Cell<u32> = Cell::new(0); }

pub mod qr {
    use std::cell::Cell;
    use std::rc::Rc;
    pub struct QRBuilder {
        pub input: Vec<u8>,
        pub hits: Cell<u32>,
        pub shared: Option<Rc<u8>>,
        pub raw: *const u8,
        pub cb: Option<Box<dyn Fn() -> u8>>,
    }
    pub struct QRCode {
        pub size: usize,
    }
    impl QRBuilder {
        pub fn build(&self) -> usize {
            self.hits.set(self.hits.get() + 1);
            let t = std::time::Instant::now();
            let e = std::env::var("X").map(|s| s.len()).unwrap_or(0);
            let _ = t;
            unsafe { super::SCRATCH += 1 };
            super::CACHE.with(|c| c.set(c.get() + 1));
            super::COUNTER.fetch_add(1, std::sync::atomic::Ordering::SeqCst);
            e + self.input.len()
        }
    }
    impl QRCode {
        pub fn to_str(&mut self) -> String {
            self.size += 1;
            String::new()
        }
        pub fn print(&self) {}
    }
}

pub mod wasm_host {
    pub fn parse(s: String) -> u8 {
        u8::from_str_radix(&s, 16).unwrap()
    }
    pub fn pick(v: Vec<f64>, w: Vec<f64>) -> f64 {
        if w.len() == 2 {
            return v[0];
        }
        0.0
    }
}

pub fn uses(m: &HashMap<u8, u8>, r: Rc<u8>) -> usize {
    m.len() + *r as usize
}
