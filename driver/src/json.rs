//! Minimal JSON value + serializer (the driver has zero cargo dependencies).

#[derive(Clone, Debug)]
pub enum J {
    Null,
    Bool(bool),
    Int(i128),
    UInt(u128),
    Float(f64),
    Str(String),
    Arr(Vec<J>),
    Obj(Vec<(String, J)>),
}

impl J {
    pub fn s<S: Into<String>>(s: S) -> J {
        J::Str(s.into())
    }
    pub fn obj() -> J {
        J::Obj(Vec::new())
    }
    pub fn set<S: Into<String>>(mut self, k: S, v: J) -> J {
        if let J::Obj(ref mut o) = self {
            o.push((k.into(), v));
        }
        self
    }
    pub fn put<S: Into<String>>(&mut self, k: S, v: J) {
        if let J::Obj(ref mut o) = self {
            o.push((k.into(), v));
        }
    }
    pub fn opt_s(o: Option<String>) -> J {
        match o {
            Some(s) => J::Str(s),
            None => J::Null,
        }
    }
    pub fn write(&self, out: &mut String) {
        match self {
            J::Null => out.push_str("null"),
            J::Bool(b) => out.push_str(if *b { "true" } else { "false" }),
            J::Int(i) => out.push_str(&i.to_string()),
            J::UInt(i) => out.push_str(&i.to_string()),
            J::Float(f) => {
                if f.is_finite() {
                    let s = format!("{:?}", f);
                    out.push_str(&s);
                } else {
                    // JSON has no inf/nan: emit as string
                    out.push('"');
                    out.push_str(&format!("{:?}", f));
                    out.push('"');
                }
            }
            J::Str(s) => write_str(s, out),
            J::Arr(a) => {
                out.push('[');
                for (i, v) in a.iter().enumerate() {
                    if i > 0 {
                        out.push(',');
                    }
                    v.write(out);
                }
                out.push(']');
            }
            J::Obj(o) => {
                out.push('{');
                for (i, (k, v)) in o.iter().enumerate() {
                    if i > 0 {
                        out.push(',');
                    }
                    write_str(k, out);
                    out.push(':');
                    v.write(out);
                }
                out.push('}');
            }
        }
    }
}

fn write_str(s: &str, out: &mut String) {
    out.push('"');
    for c in s.chars() {
        match c {
            '"' => out.push_str("\\\""),
            '\\' => out.push_str("\\\\"),
            '\n' => out.push_str("\\n"),
            '\r' => out.push_str("\\r"),
            '\t' => out.push_str("\\t"),
            c if (c as u32) < 0x20 => out.push_str(&format!("\\u{:04x}", c as u32)),
            c => out.push(c),
        }
    }
    out.push('"');
}
