//! fqr-facts: rustc_private driver that dumps the type-checked program of the
//! `fast_qr` lib crate (MIR with resolved callees, evaluated constants, ADTs,
//! statics, impls, user-written unsafe) as one JSON file per configuration.
//!
//! Invoked through RUSTC_WORKSPACE_WRAPPER (argv[1] = real rustc path, dropped).
//! Environment: FQR_FACTS_OUT (output path), FQR_NONCE, FQR_CONFIG (label),
//! FQR_CRATE (crate name to analyse, default fast_qr).
#![feature(rustc_private)]
#![allow(clippy::all)]

extern crate rustc_abi;
extern crate rustc_ast;
extern crate rustc_driver;
extern crate rustc_hir;
extern crate rustc_interface;
extern crate rustc_middle;
extern crate rustc_session;
extern crate rustc_span;

mod json;
use json::J;

use rustc_abi::Size;
use rustc_driver::Compilation;
use rustc_hir::def::DefKind;
use rustc_hir::def_id::{DefId, LOCAL_CRATE};
use rustc_middle::mir::interpret::{AllocId, GlobalAlloc, Scalar};
use rustc_middle::mir::{self, ConstValue};
use rustc_middle::ty::{self, Ty, TyCtxt, TypeVisitableExt};
use rustc_span::Span;

// ---------------------------------------------------------------------------
// constants
// ---------------------------------------------------------------------------

fn read_bytes<'tcx>(tcx: TyCtxt<'tcx>, a: AllocId, off: u64, n: u64) -> Option<Vec<u8>> {
    match tcx.global_alloc(a) {
        GlobalAlloc::Memory(m) => {
            let al = m.inner();
            let r = (off as usize)..((off + n) as usize);
            if r.end > al.len() {
                return None;
            }
            Some(al.inspect_with_uninit_and_ptr_outside_interpreter(r).to_vec())
        }
        GlobalAlloc::Static(did) => {
            let a2 = tcx.eval_static_initializer(did).ok()?;
            let al = a2.inner();
            let r = (off as usize)..((off + n) as usize);
            if r.end > al.len() {
                return None;
            }
            Some(al.inspect_with_uninit_and_ptr_outside_interpreter(r).to_vec())
        }
        _ => None,
    }
}

fn read_ptr<'tcx>(tcx: TyCtxt<'tcx>, a: AllocId, off: u64) -> Option<(AllocId, u64)> {
    match tcx.global_alloc(a) {
        GlobalAlloc::Memory(m) => {
            let al = m.inner();
            let prov = al.provenance().ptrs().get(&Size::from_bytes(off))?;
            let b = read_bytes(tcx, a, off, 8)?;
            let addend = u64::from_le_bytes(b.try_into().ok()?);
            Some((prov.alloc_id(), addend))
        }
        _ => None,
    }
}

fn le(b: &[u8]) -> u128 {
    let mut v = 0u128;
    for (i, x) in b.iter().enumerate() {
        v |= (*x as u128) << (8 * i);
    }
    v
}

fn scalar_by_type<'tcx>(tcx: TyCtxt<'tcx>, t: Ty<'tcx>, bits: u128, size: u64) -> J {
    match t.kind() {
        ty::Bool => J::Bool(bits != 0),
        ty::Char | ty::Uint(_) => J::UInt(bits),
        ty::Int(_) => {
            if size == 0 {
                return J::Int(0);
            }
            let sh = 128 - 8 * size as u32;
            J::Int(((bits << sh) as i128) >> sh)
        }
        ty::Float(_) => {
            if size == 8 {
                J::Float(f64::from_bits(bits as u64))
            } else if size == 4 {
                J::Float(f32::from_bits(bits as u32) as f64)
            } else {
                J::Null
            }
        }
        ty::Adt(def, _) if def.is_enum() && def.variants().iter().all(|v| v.fields.is_empty()) => {
            for (vi, d) in def.discriminants(tcx) {
                // discriminant value is compared on `size` bytes
                let mask: u128 = if size >= 16 { u128::MAX } else { (1u128 << (8 * size)) - 1 };
                if (d.val & mask) == (bits & mask) {
                    return J::Str(def.variant(vi).name.to_string());
                }
            }
            J::Null
        }
        ty::Adt(def, args) if def.is_struct() && def.non_enum_variant().fields.len() == 1 => {
            // a newtype constant evaluated to a bare scalar (e.g. `const X: Module = Module(9)`)
            let f = def.non_enum_variant().fields.iter().next().unwrap();
            let inner = scalar_by_type(tcx, f.ty(tcx, args), bits, size);
            J::obj().set("struct", J::Arr(vec![inner]))
        }
        _ => J::Null,
    }
}

fn decode<'tcx>(
    tcx: TyCtxt<'tcx>,
    env: ty::TypingEnv<'tcx>,
    t: Ty<'tcx>,
    a: AllocId,
    off: u64,
    depth: u32,
) -> J {
    if depth > 8 {
        return J::Null;
    }
    let Ok(layout) = tcx.layout_of(env.as_query_input(t)) else {
        return J::Null;
    };
    let size = layout.size.bytes();
    match t.kind() {
        ty::Bool | ty::Char | ty::Uint(_) | ty::Int(_) | ty::Float(_) => {
            match read_bytes(tcx, a, off, size) {
                Some(b) => scalar_by_type(tcx, t, le(&b), size),
                None => J::Null,
            }
        }
        ty::Array(et, n) => {
            let n = n.try_to_target_usize(tcx).unwrap_or(0);
            let es = tcx.layout_of(env.as_query_input(*et)).map(|l| l.size.bytes()).unwrap_or(0);
            J::Arr((0..n).map(|i| decode(tcx, env, *et, a, off + i * es, depth + 1)).collect())
        }
        ty::Tuple(ts) => J::Arr(
            ts.iter()
                .enumerate()
                .map(|(i, ft)| decode(tcx, env, ft, a, off + layout.fields.offset(i).bytes(), depth + 1))
                .collect(),
        ),
        ty::Ref(_, pt, _) | ty::RawPtr(pt, _) => {
            let Some((a2, o2)) = read_ptr(tcx, a, off) else {
                return J::Null;
            };
            match pt.kind() {
                ty::Slice(et) => {
                    let len = read_bytes(tcx, a, off + 8, 8).map(|b| le(&b) as u64).unwrap_or(0);
                    let es =
                        tcx.layout_of(env.as_query_input(*et)).map(|l| l.size.bytes()).unwrap_or(0);
                    J::Arr((0..len).map(|i| decode(tcx, env, *et, a2, o2 + i * es, depth + 1)).collect())
                }
                ty::Str => {
                    let len = read_bytes(tcx, a, off + 8, 8).map(|b| le(&b) as u64).unwrap_or(0);
                    match read_bytes(tcx, a2, o2, len) {
                        Some(b) => J::obj().set("str", J::Str(String::from_utf8_lossy(&b).into_owned())),
                        None => J::Null,
                    }
                }
                _ => decode(tcx, env, *pt, a2, o2, depth + 1),
            }
        }
        ty::FnPtr(..) => {
            let Some((a2, _)) = read_ptr(tcx, a, off) else {
                return J::Null;
            };
            match tcx.global_alloc(a2) {
                GlobalAlloc::Function { instance } => {
                    J::Str(format!("fn:{}", tcx.def_path_str(instance.def_id())))
                }
                _ => J::Null,
            }
        }
        ty::FnDef(did, _) => J::Str(format!("fn:{}", tcx.def_path_str(*did))),
        ty::Adt(def, _) if def.is_enum() && def.variants().iter().all(|v| v.fields.is_empty()) => {
            match read_bytes(tcx, a, off, size) {
                Some(b) => scalar_by_type(tcx, t, le(&b), size),
                None => J::Null,
            }
        }
        ty::Adt(def, args) if def.is_struct() => {
            let v: Vec<J> = def
                .non_enum_variant()
                .fields
                .iter()
                .enumerate()
                .map(|(i, f)| {
                    decode(tcx, env, f.ty(tcx, args), a, off + layout.fields.offset(i).bytes(), depth + 1)
                })
                .collect();
            J::obj().set("struct", J::Arr(v))
        }
        ty::Adt(def, args) if def.is_enum() => {
            // data-carrying enum (Option<T>, Result<..>, crate enums with payloads): find the variant through the layout
            use rustc_abi::{TagEncoding, VariantIdx, Variants};
            let vi: Option<VariantIdx> = match &layout.variants {
                Variants::Single { index } => Some(*index),
                Variants::Empty => None,
                Variants::Multiple { tag, tag_encoding, tag_field, .. } => {
                    let toff = layout.fields.offset(tag_field.as_usize()).bytes();
                    let tsize = tag.size(&tcx).bytes();
                    let mask: u128 = if tsize >= 16 { u128::MAX } else { (1u128 << (8 * tsize)) - 1 };
                    let bits = read_bytes(tcx, a, off + toff, tsize).map(|b| le(&b));
                    match tag_encoding {
                        TagEncoding::Direct => bits.and_then(|bits| {
                            def.discriminants(tcx).find(|(_, d)| (d.val & mask) == (bits & mask)).map(|(vi, _)| vi)
                        }),
                        TagEncoding::Niche { untagged_variant, niche_variants, niche_start } => match bits {
                            None => Some(*untagged_variant),
                            Some(bits) => {
                                let rel = bits.wrapping_sub(*niche_start) & mask;
                                let count = (niche_variants.end().as_u32() - niche_variants.start().as_u32()) as u128;
                                if rel <= count {
                                    Some(VariantIdx::from_u32(niche_variants.start().as_u32() + rel as u32))
                                } else {
                                    Some(*untagged_variant)
                                }
                            }
                        },
                    }
                }
            };
            let Some(vi) = vi else { return J::Null };
            let cx = ty::layout::LayoutCx::new(tcx, env);
            let vl = layout.for_variant(&cx, vi);
            let v = def.variant(vi);
            let fields: Vec<J> = v
                .fields
                .iter()
                .enumerate()
                .map(|(i, f)| {
                    let ft = f.ty(tcx, args);
                    J::obj()
                        .set("tyt", ty_tree(tcx, ft, 0))
                        .set("val", decode(tcx, env, ft, a, off + vl.fields.offset(i).bytes(), depth + 1))
                })
                .collect();
            J::obj()
                .set("enum", J::Str(v.name.to_string()))
                .set("vi", J::UInt(vi.as_u32() as u128))
                .set("fields", J::Arr(fields))
        }
        _ => J::Null,
    }
}

fn const_value_json<'tcx>(tcx: TyCtxt<'tcx>, env: ty::TypingEnv<'tcx>, t: Ty<'tcx>, v: ConstValue) -> J {
    match v {
        ConstValue::Scalar(Scalar::Int(i)) => {
            let size = i.size().bytes();
            scalar_by_type(tcx, t, i.to_bits_unchecked(), size)
        }
        ConstValue::Scalar(Scalar::Ptr(p, _)) => {
            let (prov, off) = p.into_raw_parts();
            let aid = prov.alloc_id();
            match t.kind() {
                ty::Ref(_, pt, _) | ty::RawPtr(pt, _) => decode(tcx, env, *pt, aid, off.bytes(), 0),
                ty::FnPtr(..) => match tcx.global_alloc(aid) {
                    GlobalAlloc::Function { instance } => {
                        J::Str(format!("fn:{}", tcx.def_path_str(instance.def_id())))
                    }
                    _ => J::Null,
                },
                _ => J::Null,
            }
        }
        ConstValue::ZeroSized => match t.kind() {
            ty::FnDef(did, _) => J::Str(format!("fn:{}", tcx.def_path_str(*did))),
            ty::Tuple(ts) if ts.is_empty() => J::Arr(vec![]),
            ty::Array(..) => J::Arr(vec![]),
            _ => J::obj().set("zst", J::Str(t.to_string())),
        },
        ConstValue::Slice { alloc_id, meta } => {
            if let ty::Ref(_, pt, _) = t.kind() {
                match pt.kind() {
                    ty::Slice(et) => {
                        let es = tcx
                            .layout_of(env.as_query_input(*et))
                            .map(|l| l.size.bytes())
                            .unwrap_or(0);
                        return J::Arr(
                            (0..meta).map(|i| decode(tcx, env, *et, alloc_id, i * es, 0)).collect(),
                        );
                    }
                    ty::Str => {
                        return match read_bytes(tcx, alloc_id, 0, meta) {
                            Some(b) => J::obj().set("str", J::Str(String::from_utf8_lossy(&b).into_owned())),
                            None => J::Null,
                        };
                    }
                    _ => {}
                }
            }
            J::Null
        }
        ConstValue::Indirect { alloc_id, offset } => decode(tcx, env, t, alloc_id, offset.bytes(), 0),
    }
}

// ---------------------------------------------------------------------------
// types
// ---------------------------------------------------------------------------

fn ty_tree<'tcx>(tcx: TyCtxt<'tcx>, t: Ty<'tcx>, depth: u32) -> J {
    if depth > 10 {
        return J::obj().set("k", J::s("deep"));
    }
    match t.kind() {
        ty::Bool | ty::Char | ty::Int(_) | ty::Uint(_) | ty::Float(_) | ty::Str => {
            J::obj().set("k", J::s("prim")).set("name", J::s(t.to_string()))
        }
        ty::Never => J::obj().set("k", J::s("never")),
        ty::Param(p) => J::obj().set("k", J::s("param")).set("name", J::s(p.name.to_string())),
        ty::Adt(def, args) => {
            let targs: Vec<J> = args.types().map(|a| ty_tree(tcx, a, depth + 1)).collect();
            J::obj()
                .set("k", J::s("adt"))
                .set("path", J::s(tcx.def_path_str(def.did())))
                .set("local", J::Bool(def.did().is_local()))
                .set("args", J::Arr(targs))
        }
        ty::Ref(_, inner, m) => J::obj()
            .set("k", J::s("ref"))
            .set("mut", J::Bool(m.is_mut()))
            .set("inner", ty_tree(tcx, *inner, depth + 1)),
        ty::RawPtr(inner, m) => J::obj()
            .set("k", J::s("ptr"))
            .set("mut", J::Bool(m.is_mut()))
            .set("inner", ty_tree(tcx, *inner, depth + 1)),
        ty::Slice(inner) => J::obj().set("k", J::s("slice")).set("inner", ty_tree(tcx, *inner, depth + 1)),
        ty::Array(inner, n) => J::obj()
            .set("k", J::s("array"))
            .set("inner", ty_tree(tcx, *inner, depth + 1))
            .set(
                "len",
                match n.try_to_target_usize(tcx) {
                    Some(n) => J::UInt(n as u128),
                    None => J::Null,
                },
            ),
        ty::Tuple(ts) => J::obj()
            .set("k", J::s("tuple"))
            .set("elems", J::Arr(ts.iter().map(|e| ty_tree(tcx, e, depth + 1)).collect())),
        ty::FnPtr(..) => J::obj().set("k", J::s("fnptr")).set("sig", J::s(t.to_string())),
        ty::FnDef(did, _) => J::obj().set("k", J::s("fndef")).set("path", J::s(tcx.def_path_str(*did))),
        ty::Dynamic(..) => J::obj().set("k", J::s("dyn")).set("name", J::s(t.to_string())),
        ty::Closure(did, args) => {
            let up: Vec<J> = args.as_closure().upvar_tys().iter().map(|u| ty_tree(tcx, u, depth + 1)).collect();
            J::obj()
                .set("k", J::s("closure"))
                .set("path", J::s(tcx.def_path_str(*did)))
                .set("upvars", J::Arr(up))
        }
        ty::Foreign(did) => J::obj().set("k", J::s("foreign")).set("path", J::s(tcx.def_path_str(*did))),
        _ => J::obj().set("k", J::s("other")).set("name", J::s(t.to_string())),
    }
}

fn is_freeze<'tcx>(tcx: TyCtxt<'tcx>, env: ty::TypingEnv<'tcx>, t: Ty<'tcx>) -> J {
    if t.has_non_region_param() {
        return J::Null;
    }
    J::Bool(t.is_freeze(tcx, env))
}

// ---------------------------------------------------------------------------
// spans
// ---------------------------------------------------------------------------

struct Loc {
    file: String,
    line: usize,
}

fn loc(tcx: TyCtxt<'_>, sp: Span) -> Loc {
    let sp = sp.source_callsite();
    let sm = tcx.sess.source_map();
    if sp.is_dummy() {
        return Loc { file: String::new(), line: 0 };
    }
    let l = sm.lookup_char_pos(sp.lo());
    let file = match &l.file.name {
        rustc_span::FileName::Real(r) => match r.local_path() {
            Some(p) => p.to_string_lossy().into_owned(),
            None => format!("{:?}", r),
        },
        other => format!("{:?}", other),
    };
    Loc { file, line: l.line }
}

fn macros_of(sp: Span) -> J {
    let mut v = Vec::new();
    for e in sp.macro_backtrace() {
        if let rustc_span::ExpnKind::Macro(_, name) = e.kind {
            v.push(J::s(name.to_string()));
        } else if let rustc_span::ExpnKind::Desugaring(d) = e.kind {
            v.push(J::s(format!("desugar:{:?}", d)));
        } else if let rustc_span::ExpnKind::AstPass(p) = e.kind {
            v.push(J::s(format!("astpass:{:?}", p)));
        }
    }
    J::Arr(v)
}

// ---------------------------------------------------------------------------
// MIR
// ---------------------------------------------------------------------------

struct Cx<'a, 'tcx> {
    tcx: TyCtxt<'tcx>,
    env: ty::TypingEnv<'tcx>,
    body: &'a mir::Body<'tcx>,
    owner: DefId,
}

impl<'a, 'tcx> Cx<'a, 'tcx> {
    fn place(&self, p: &mir::Place<'tcx>) -> J {
        let mut proj = Vec::new();
        let mut pty = mir::PlaceTy::from_ty(self.body.local_decls[p.local].ty);
        for e in p.projection.iter() {
            let j = match e {
                mir::ProjectionElem::Deref => J::s("deref"),
                mir::ProjectionElem::Field(f, _) => {
                    let name = match pty.ty.kind() {
                        ty::Adt(def, _) => {
                            let v = match pty.variant_index {
                                Some(vi) => def.variant(vi),
                                None if def.is_enum() => def.variants().iter().next().unwrap(),
                                None => def.non_enum_variant(),
                            };
                            if f.index() < v.fields.len() {
                                Some(v.fields[f].name.to_string())
                            } else {
                                None
                            }
                        }
                        _ => None,
                    };
                    J::obj().set("f", J::UInt(f.index() as u128)).set("name", J::opt_s(name))
                }
                mir::ProjectionElem::Index(l) => J::obj().set("idx", J::UInt(l.index() as u128)),
                mir::ProjectionElem::ConstantIndex { offset, min_length, from_end } => J::obj()
                    .set("cidx", J::UInt(offset as u128))
                    .set("min", J::UInt(min_length as u128))
                    .set("fe", J::Bool(from_end)),
                mir::ProjectionElem::Subslice { from, to, from_end } => J::obj().set(
                    "sub",
                    J::Arr(vec![J::UInt(from as u128), J::UInt(to as u128), J::Bool(from_end)]),
                ),
                mir::ProjectionElem::Downcast(name, vi) => J::obj()
                    .set("dc", J::opt_s(name.map(|s| s.to_string())))
                    .set("vi", J::UInt(vi.index() as u128)),
                mir::ProjectionElem::OpaqueCast(_) => J::s("opaquecast"),
                mir::ProjectionElem::UnwrapUnsafeBinder(_) => J::s("unwrapbinder"),
            };
            proj.push(j);
            pty = pty.projection_ty(self.tcx, e);
        }
        J::obj().set("l", J::UInt(p.local.index() as u128)).set("proj", J::Arr(proj))
    }

    fn constant(&self, c: &mir::ConstOperand<'tcx>) -> J {
        let tcx = self.tcx;
        let t = c.const_.ty();
        let mut o = J::obj().set("k", J::s("const")).set("ty", J::s(t.to_string()));
        if !matches!(t.kind(), ty::FnDef(..)) {
            o.put("tyt", ty_tree(tcx, t, 0));
        }
        if let ty::FnDef(did, args) = t.kind() {
            o.put("fn", J::s(tcx.def_path_str(*did)));
            o.put("generics", J::Arr(args.iter().map(|a| J::s(a.to_string())).collect()));
            return o;
        }
        match c.const_ {
            mir::Const::Unevaluated(u, _) => {
                if let Some(p) = u.promoted {
                    o.put("promoted", J::UInt(p.index() as u128));
                } else {
                    o.put("item", J::s(tcx.def_path_str(u.def)));
                }
            }
            _ => {}
        }
        let val = match c.const_.eval(tcx, self.env, c.span) {
            Ok(v) => const_value_json(tcx, self.env, t, v),
            Err(_) => J::Null,
        };
        o.put("val", val);
        o
    }

    fn operand(&self, op: &mir::Operand<'tcx>) -> J {
        match op {
            mir::Operand::Copy(p) => J::obj()
                .set("k", J::s("copy"))
                .set("p", self.place(p))
                .set("ty", J::s(p.ty(self.body, self.tcx).ty.to_string())),
            mir::Operand::Move(p) => J::obj()
                .set("k", J::s("move"))
                .set("p", self.place(p))
                .set("ty", J::s(p.ty(self.body, self.tcx).ty.to_string())),
            mir::Operand::Constant(c) => self.constant(c),
            mir::Operand::RuntimeChecks(rc) => {
                J::obj().set("k", J::s("rtcheck")).set("name", J::s(format!("{:?}", rc)))
            }
        }
    }

    fn rvalue(&self, rv: &mir::Rvalue<'tcx>) -> J {
        let tcx = self.tcx;
        match rv {
            mir::Rvalue::Use(op, _) => J::obj().set("k", J::s("use")).set("op", self.operand(op)),
            mir::Rvalue::Repeat(op, n) => J::obj()
                .set("k", J::s("repeat"))
                .set("op", self.operand(op))
                .set(
                    "len",
                    match n.try_to_target_usize(tcx) {
                        Some(n) => J::UInt(n as u128),
                        None => J::Null,
                    },
                ),
            mir::Rvalue::Ref(_, bk, p) => J::obj()
                .set("k", J::s("ref"))
                .set("mut", J::Bool(matches!(bk, mir::BorrowKind::Mut { .. })))
                .set("bk", J::s(format!("{:?}", bk)))
                .set("p", self.place(p)),
            mir::Rvalue::ThreadLocalRef(did) => {
                J::obj().set("k", J::s("tlsref")).set("path", J::s(tcx.def_path_str(*did)))
            }
            mir::Rvalue::RawPtr(kind, p) => J::obj()
                .set("k", J::s("rawptr"))
                .set("kind", J::s(format!("{:?}", kind)))
                .set("p", self.place(p)),
            mir::Rvalue::Cast(kind, op, t) => J::obj()
                .set("k", J::s("cast"))
                .set("kind", J::s(format!("{:?}", kind)))
                .set("op", self.operand(op))
                .set("ty", J::s(t.to_string())),
            mir::Rvalue::BinaryOp(op, ab) => J::obj()
                .set("k", J::s("bin"))
                .set("op", J::s(format!("{:?}", op)))
                .set("a", self.operand(&ab.0))
                .set("b", self.operand(&ab.1)),
            mir::Rvalue::UnaryOp(op, a) => J::obj()
                .set("k", J::s("un"))
                .set("op", J::s(format!("{:?}", op)))
                .set("a", self.operand(a)),
            mir::Rvalue::Discriminant(p) => J::obj().set("k", J::s("discr")).set("p", self.place(p)),
            mir::Rvalue::Aggregate(kind, ops) => {
                let mut o = J::obj().set("k", J::s("agg"));
                match &**kind {
                    mir::AggregateKind::Array(t) => {
                        o.put("agg", J::s("array"));
                        o.put("ty", J::s(t.to_string()));
                    }
                    mir::AggregateKind::Tuple => o.put("agg", J::s("tuple")),
                    mir::AggregateKind::Adt(did, vi, _, _, active) => {
                        o.put("agg", J::s("adt"));
                        o.put("path", J::s(tcx.def_path_str(*did)));
                        let def = tcx.adt_def(*did);
                        let v = def.variant(*vi);
                        o.put("variant", J::s(v.name.to_string()));
                        o.put("vi", J::UInt(vi.index() as u128));
                        o.put(
                            "fields",
                            J::Arr(v.fields.iter().map(|f| J::s(f.name.to_string())).collect()),
                        );
                        if let Some(a) = active {
                            o.put("union_field", J::UInt(a.index() as u128));
                        }
                    }
                    mir::AggregateKind::Closure(did, _) => {
                        o.put("agg", J::s("closure"));
                        o.put("path", J::s(tcx.def_path_str(*did)));
                    }
                    mir::AggregateKind::Coroutine(did, _) | mir::AggregateKind::CoroutineClosure(did, _) => {
                        o.put("agg", J::s("coroutine"));
                        o.put("path", J::s(tcx.def_path_str(*did)));
                    }
                    mir::AggregateKind::RawPtr(t, _) => {
                        o.put("agg", J::s("rawptr"));
                        o.put("ty", J::s(t.to_string()));
                    }
                }
                o.put("ops", J::Arr(ops.iter().map(|x| self.operand(x)).collect()));
                o
            }
            mir::Rvalue::CopyForDeref(p) => J::obj().set("k", J::s("copyforderef")).set("p", self.place(p)),
            mir::Rvalue::WrapUnsafeBinder(op, _) => {
                J::obj().set("k", J::s("wrapbinder")).set("op", self.operand(op))
            }
        }
    }

    fn callee(&self, func: &mir::Operand<'tcx>) -> J {
        let tcx = self.tcx;
        let fty = func.ty(self.body, tcx);
        let mut o = J::obj();
        match fty.kind() {
            ty::FnDef(did, args) => {
                o.put("declared", J::s(tcx.def_path_str(*did)));
                o.put("generics", J::Arr(args.iter().map(|a| J::s(a.to_string())).collect()));
                if let Some(tr) = tcx.trait_of_assoc(*did) {
                    o.put("trait", J::s(tcx.def_path_str(tr)));
                } else {
                    o.put("trait", J::Null);
                }
                o.put("local", J::Bool(did.is_local()));
                let mut resolved = J::Null;
                let mut rkind = J::Null;
                let mut rlocal = J::Null;
                if let Ok(nargs) = tcx.try_normalize_erasing_regions(self.env, ty::Unnormalized::new_wip(*args)) {
                    if let Ok(Some(inst)) = ty::Instance::try_resolve(tcx, self.env, *did, nargs) {
                        let rid = inst.def_id();
                        let is_virtual = matches!(inst.def, ty::InstanceKind::Virtual(..));
                        // a trait method that resolves to itself (default body) counts as resolved;
                        // an unresolved trait item stays null
                        let unresolved_trait_item = tcx.trait_of_assoc(rid).is_some()
                            && !tcx.defaultness(rid).has_value();
                        if !is_virtual && !unresolved_trait_item {
                            resolved = J::s(tcx.def_path_str(rid));
                            rlocal = J::Bool(rid.is_local());
                        }
                        rkind = J::s(match inst.def {
                            ty::InstanceKind::Item(_) => "item",
                            ty::InstanceKind::Intrinsic(_) => "intrinsic",
                            ty::InstanceKind::Virtual(..) => "virtual",
                            ty::InstanceKind::FnPtrShim(..) => "fnptrshim",
                            ty::InstanceKind::ClosureOnceShim { .. } => "closureonceshim",
                            ty::InstanceKind::DropGlue(..) => "dropglue",
                            ty::InstanceKind::CloneShim(..) => "cloneshim",
                            ty::InstanceKind::ReifyShim(..) => "reifyshim",
                            ty::InstanceKind::VTableShim(..) => "vtableshim",
                            _ => "othershim",
                        });
                        if let ty::InstanceKind::CloneShim(_, t) = inst.def {
                            o.put("shim_ty", J::s(t.to_string()));
                        }
                        if let ty::InstanceKind::FnPtrShim(_, t) = inst.def {
                            o.put("shim_ty", J::s(t.to_string()));
                        }
                    }
                }
                o.put("callee", resolved);
                o.put("rkind", rkind);
                o.put("rlocal", rlocal);
                o.put("indirect", J::Null);
            }
            _ => {
                o.put("declared", J::Null);
                o.put("callee", J::Null);
                o.put("trait", J::Null);
                o.put("generics", J::Arr(vec![]));
                o.put("indirect", self.operand(func));
                o.put("fty", J::s(fty.to_string()));
            }
        }
        o
    }

    fn terminator(&self, t: &mir::Terminator<'tcx>) -> J {
        let bbj = |b: mir::BasicBlock| J::UInt(b.index() as u128);
        let l = loc(self.tcx, t.source_info.span);
        let mut o = match &t.kind {
            mir::TerminatorKind::Goto { target } => J::obj().set("k", J::s("goto")).set("target", bbj(*target)),
            mir::TerminatorKind::SwitchInt { discr, targets } => {
                let dty = discr.ty(self.body, self.tcx);
                let arms: Vec<J> =
                    targets.iter().map(|(v, b)| J::Arr(vec![J::UInt(v), bbj(b)])).collect();
                J::obj()
                    .set("k", J::s("switch"))
                    .set("op", self.operand(discr))
                    .set("ty", J::s(dty.to_string()))
                    .set("arms", J::Arr(arms))
                    .set("otherwise", bbj(targets.otherwise()))
            }
            mir::TerminatorKind::UnwindResume => J::obj().set("k", J::s("resume")),
            mir::TerminatorKind::UnwindTerminate(_) => J::obj().set("k", J::s("terminate")),
            mir::TerminatorKind::Return => J::obj().set("k", J::s("ret")),
            mir::TerminatorKind::Unreachable => J::obj().set("k", J::s("unreachable")),
            mir::TerminatorKind::Drop { place, target, .. } => {
                J::obj().set("k", J::s("drop")).set("p", self.place(place)).set("target", bbj(*target))
            }
            mir::TerminatorKind::Call { func, args, destination, target, fn_span, .. } => {
                let mut o = J::obj().set("k", J::s("call"));
                if let J::Obj(kv) = self.callee(func) {
                    for (k, v) in kv {
                        o.put(k, v);
                    }
                }
                o.put("args", J::Arr(args.iter().map(|a| self.operand(&a.node)).collect()));
                o.put("dest", self.place(destination));
                o.put("dest_ty", J::s(destination.ty(self.body, self.tcx).ty.to_string()));
                o.put(
                    "target",
                    match target {
                        Some(b) => bbj(*b),
                        None => J::Null,
                    },
                );
                o.put("fn_line", J::UInt(loc(self.tcx, *fn_span).line as u128));
                o
            }
            mir::TerminatorKind::TailCall { func, args, .. } => {
                let mut o = J::obj().set("k", J::s("tailcall"));
                if let J::Obj(kv) = self.callee(func) {
                    for (k, v) in kv {
                        o.put(k, v);
                    }
                }
                o.put("args", J::Arr(args.iter().map(|a| self.operand(&a.node)).collect()));
                o
            }
            mir::TerminatorKind::Assert { cond, expected, msg, target, .. } => {
                let mut o = J::obj()
                    .set("k", J::s("assert"))
                    .set("cond", self.operand(cond))
                    .set("expected", J::Bool(*expected))
                    .set("target", bbj(*target));
                match &**msg {
                    mir::AssertKind::BoundsCheck { len, index } => {
                        o.put("kind", J::s("bounds"));
                        o.put("len", self.operand(len));
                        o.put("index", self.operand(index));
                    }
                    mir::AssertKind::Overflow(op, a, b) => {
                        o.put("kind", J::s("overflow"));
                        o.put("op", J::s(format!("{:?}", op)));
                        o.put("a", self.operand(a));
                        o.put("b", self.operand(b));
                    }
                    mir::AssertKind::OverflowNeg(a) => {
                        o.put("kind", J::s("overflow_neg"));
                        o.put("a", self.operand(a));
                    }
                    mir::AssertKind::DivisionByZero(a) => {
                        o.put("kind", J::s("divzero"));
                        o.put("a", self.operand(a));
                    }
                    mir::AssertKind::RemainderByZero(a) => {
                        o.put("kind", J::s("remzero"));
                        o.put("a", self.operand(a));
                    }
                    other => {
                        let s = format!("{:?}", other);
                        let name = s.split(|c: char| !c.is_alphanumeric()).next().unwrap_or("other").to_string();
                        o.put("kind", J::s(format!("other:{}", name)));
                    }
                }
                o
            }
            mir::TerminatorKind::Yield { .. } => J::obj().set("k", J::s("yield")),
            mir::TerminatorKind::CoroutineDrop => J::obj().set("k", J::s("coroutinedrop")),
            mir::TerminatorKind::FalseEdge { real_target, .. } => {
                J::obj().set("k", J::s("goto")).set("target", bbj(*real_target))
            }
            mir::TerminatorKind::FalseUnwind { real_target, .. } => {
                J::obj().set("k", J::s("goto")).set("target", bbj(*real_target))
            }
            mir::TerminatorKind::InlineAsm { .. } => J::obj().set("k", J::s("asm")),
        };
        o.put("line", J::UInt(l.line as u128));
        o.put("file", J::s(l.file));
        o.put("exp", J::Bool(t.source_info.span.from_expansion()));
        if t.source_info.span.from_expansion() {
            o.put("macros", macros_of(t.source_info.span));
        }
        o
    }

    fn body_json(&self) -> J {
        let tcx = self.tcx;
        let body = self.body;
        // names
        let mut names: Vec<Option<String>> = vec![None; body.local_decls.len()];
        for vdi in &body.var_debug_info {
            if let mir::VarDebugInfoContents::Place(p) = &vdi.value {
                if p.projection.is_empty() && names[p.local.index()].is_none() {
                    names[p.local.index()] = Some(vdi.name.to_string());
                }
            }
        }
        let mut locals = Vec::new();
        for (l, d) in body.local_decls.iter_enumerated() {
            let kind = if l.index() == 0 {
                "ret"
            } else if l.index() <= body.arg_count {
                "arg"
            } else if names[l.index()].is_some() {
                "var"
            } else {
                "temp"
            };
            locals.push(
                J::obj()
                    .set("id", J::UInt(l.index() as u128))
                    .set("ty", J::s(d.ty.to_string()))
                    .set("tyt", ty_tree(tcx, d.ty, 0))
                    .set("name", J::opt_s(names[l.index()].clone()))
                    .set("kind", J::s(kind))
                    .set("mut", J::Bool(d.mutability.is_mut()))
                    .set("freeze", is_freeze(tcx, self.env, d.ty)),
            );
        }
        let mut blocks = Vec::new();
        for (bb, data) in body.basic_blocks.iter_enumerated() {
            let mut stmts = Vec::new();
            for st in &data.statements {
                let l = loc(tcx, st.source_info.span);
                match &st.kind {
                    mir::StatementKind::Assign(b) => {
                        let (p, rv) = &**b;
                        let mut o = J::obj()
                            .set("k", J::s("assign"))
                            .set("p", self.place(p))
                            .set("pty", J::s(p.ty(self.body, tcx).ty.to_string()))
                            .set("rv", self.rvalue(rv))
                            .set("line", J::UInt(l.line as u128))
                            .set("exp", J::Bool(st.source_info.span.from_expansion()));
                        if st.source_info.span.from_expansion() {
                            o.put("macros", macros_of(st.source_info.span));
                        }
                        stmts.push(o);
                    }
                    mir::StatementKind::SetDiscriminant { place, variant_index } => {
                        stmts.push(
                            J::obj()
                                .set("k", J::s("setdiscr"))
                                .set("p", self.place(place))
                                .set("vi", J::UInt(variant_index.index() as u128))
                                .set("line", J::UInt(l.line as u128)),
                        );
                    }
                    mir::StatementKind::Intrinsic(i) => {
                        let name = match &**i {
                            mir::NonDivergingIntrinsic::Assume(_) => "assume",
                            mir::NonDivergingIntrinsic::CopyNonOverlapping(_) => "copy_nonoverlapping",
                        };
                        stmts.push(
                            J::obj()
                                .set("k", J::s("intrinsic"))
                                .set("name", J::s(name))
                                .set("line", J::UInt(l.line as u128)),
                        );
                    }
                    _ => {}
                }
            }
            let term = match &data.terminator {
                Some(t) => self.terminator(t),
                None => J::Null,
            };
            blocks.push(
                J::obj()
                    .set("id", J::UInt(bb.index() as u128))
                    .set("cleanup", J::Bool(data.is_cleanup))
                    .set("stmts", J::Arr(stmts))
                    .set("term", term),
            );
        }
        J::obj()
            .set("arg_count", J::UInt(body.arg_count as u128))
            .set("locals", J::Arr(locals))
            .set("blocks", J::Arr(blocks))
    }
}

fn vis_str(tcx: TyCtxt<'_>, did: DefId) -> String {
    match tcx.visibility(did) {
        ty::Visibility::Public => "pub".to_string(),
        ty::Visibility::Restricted(m) => {
            if m.is_crate_root() {
                "crate".to_string()
            } else {
                format!("in:{}", tcx.def_path_str(m))
            }
        }
    }
}

fn fn_json<'tcx>(tcx: TyCtxt<'tcx>, did: DefId, kind: DefKind) -> J {
    let env = ty::TypingEnv::post_analysis(tcx, did);
    let body = tcx.optimized_mir(did);
    let cx = Cx { tcx, env, body, owner: did };
    let _ = cx.owner;
    let sp = tcx.def_span(did);
    let l = loc(tcx, sp);
    let full = body.span;
    let sm = tcx.sess.source_map();
    let hi_line = if full.is_dummy() { 0 } else { sm.lookup_char_pos(full.source_callsite().hi()).line };
    let mut o = J::obj()
        .set("path", J::s(tcx.def_path_str(did)))
        .set("kind", J::s(format!("{:?}", kind)))
        .set("file", J::s(l.file))
        .set("lo", J::UInt(l.line as u128))
        .set("hi", J::UInt(hi_line as u128))
        .set("from_expansion", J::Bool(sp.from_expansion()));
    if matches!(kind, DefKind::Fn | DefKind::AssocFn) {
        o.put("vis", J::s(vis_str(tcx, did)));
        o.put("is_const", J::Bool(tcx.is_const_fn(did)));
        let sig = tcx.fn_sig(did).instantiate_identity().skip_norm_wip();
        o.put("unsafe", J::Bool(sig.safety().is_unsafe()));
        let sig = sig.skip_binder();
        o.put("inputs", J::Arr(sig.inputs().iter().map(|t| J::s(t.to_string())).collect()));
        o.put("inputs_tyt", J::Arr(sig.inputs().iter().map(|t| ty_tree(tcx, *t, 0)).collect()));
        o.put("output", J::s(sig.output().to_string()));
        o.put("output_tyt", ty_tree(tcx, sig.output(), 0));
        // impl header
        if let Some(impl_did) = tcx.impl_of_assoc(did) {
            let self_ty = tcx.type_of(impl_did).instantiate_identity().skip_norm_wip();
            let tr = tcx.impl_opt_trait_ref(impl_did).map(|t| t.instantiate_identity().skip_norm_wip());
            o.put(
                "impl",
                J::obj()
                    .set("self_ty", J::s(self_ty.to_string()))
                    .set("trait", J::opt_s(tr.map(|t| tcx.def_path_str(t.def_id))))
                    .set("trait_ref", J::opt_s(tr.map(|t| t.to_string()))),
            );
        } else if let Some(tr) = tcx.trait_of_assoc(did) {
            o.put("impl", J::obj().set("trait_def", J::s(tcx.def_path_str(tr))));
        } else {
            o.put("impl", J::Null);
        }
        o.put("name", J::s(tcx.item_name(did).to_string()));
    } else {
        o.put("vis", J::Null);
        o.put("impl", J::Null);
        let parent = tcx.typeck_root_def_id(did);
        o.put("parent", J::s(tcx.def_path_str(parent)));
    }
    if let J::Obj(kv) = cx.body_json() {
        for (k, v) in kv {
            o.put(k, v);
        }
    }
    // promoteds
    let mut proms = Vec::new();
    for (pi, pb) in tcx.promoted_mir(did).iter_enumerated() {
        let pt = pb.return_ty();
        let generic = tcx.generics_of(did).requires_monomorphization(tcx);
        let val = if generic {
            // a promoted of a generic body (or of a closure inside one) cannot be evaluated without instantiation
            J::Null
        } else {
            let cid = mir::interpret::GlobalId { instance: ty::Instance::mono(tcx, did), promoted: Some(pi) };
            match tcx.const_eval_global_id(env, cid, rustc_span::DUMMY_SP) {
                Ok(v) => const_value_json(tcx, env, pt, v),
                Err(_) => J::Null,
            }
        };
        proms.push(
            J::obj().set("id", J::UInt(pi.index() as u128)).set("ty", J::s(pt.to_string())).set("tyt", ty_tree(tcx, pt, 0)).set("val", val),
        );
    }
    o.put("promoted", J::Arr(proms));
    o
}

// ---------------------------------------------------------------------------
// unsafe (HIR)
// ---------------------------------------------------------------------------

struct UnsafeVisitor<'tcx> {
    tcx: TyCtxt<'tcx>,
    out: Vec<J>,
    cur: String,
}

impl<'tcx> rustc_hir::intravisit::Visitor<'tcx> for UnsafeVisitor<'tcx> {
    fn visit_block(&mut self, b: &'tcx rustc_hir::Block<'tcx>) {
        if let rustc_hir::BlockCheckMode::UnsafeBlock(src) = b.rules {
            let user = matches!(src, rustc_hir::UnsafeSource::UserProvided);
            let l = loc(self.tcx, b.span);
            self.out.push(
                J::obj()
                    .set("kind", J::s("block"))
                    .set("user", J::Bool(user))
                    .set("from_expansion", J::Bool(b.span.from_expansion()))
                    .set(
                        "macro_local",
                        J::Bool(
                            b.span.from_expansion()
                                && b.span.ctxt().outer_expn_data().macro_def_id.map(|d| d.is_local()).unwrap_or(false),
                        ),
                    )
                    .set("file", J::s(l.file))
                    .set("line", J::UInt(l.line as u128))
                    .set("in_fn", J::s(self.cur.clone())),
            );
        }
        rustc_hir::intravisit::walk_block(self, b);
    }
}

// ---------------------------------------------------------------------------
// callbacks
// ---------------------------------------------------------------------------

struct Cb;

fn hex(b: &[u8]) -> String {
    b.iter().map(|x| format!("{:02x}", x)).collect()
}

fn collect<'tcx>(tcx: TyCtxt<'tcx>) -> J {
    let mut fns = Vec::new();
    let mut consts = Vec::new();
    let mut statics = Vec::new();
    let mut adts = Vec::new();
    let mut local_adt_dids: Vec<DefId> = Vec::new();
    let mut impls = Vec::new();
    let mut unsafes = Vec::new();
    let mut items = Vec::new();

    for ldid in tcx.mir_keys(()) {
        let did = ldid.to_def_id();
        let kind = tcx.def_kind(did);
        match kind {
            DefKind::Fn | DefKind::AssocFn | DefKind::Closure => {
                // trait method declarations without body have no MIR
                if !tcx.is_mir_available(did) {
                    continue;
                }
                fns.push(fn_json(tcx, did, kind));
            }
            DefKind::Const { .. } | DefKind::AssocConst { .. } => {
                let env = ty::TypingEnv::post_analysis(tcx, did);
                let t = tcx.type_of(did).instantiate_identity().skip_norm_wip();
                let generic = tcx.generics_of(did).requires_monomorphization(tcx);
                let val = if generic {
                    J::Null
                } else {
                    match tcx.const_eval_poly(did) {
                        Ok(v) => const_value_json(tcx, env, t, v),
                        Err(_) => J::Null,
                    }
                };
                let l = loc(tcx, tcx.def_span(did));
                consts.push(
                    J::obj()
                        .set("path", J::s(tcx.def_path_str(did)))
                        .set("ty", J::s(t.to_string()))
                        .set("tyt", ty_tree(tcx, t, 0))
                        .set("val", val)
                        .set("file", J::s(l.file))
                        .set("line", J::UInt(l.line as u128)),
                );
            }
            _ => {}
        }
    }

    let crate_items = tcx.hir_crate_items(());
    for ldid in crate_items.definitions() {
        let did = ldid.to_def_id();
        let kind = tcx.def_kind(did);
        let l = loc(tcx, tcx.def_span(did));
        match kind {
            DefKind::Static { mutability, nested, .. } => {
                let env = ty::TypingEnv::post_analysis(tcx, did);
                let t = tcx.type_of(did).instantiate_identity().skip_norm_wip();
                statics.push(
                    J::obj()
                        .set("path", J::s(tcx.def_path_str(did)))
                        .set("ty", J::s(t.to_string()))
                        .set("tyt", ty_tree(tcx, t, 0))
                        .set("mutable", J::Bool(mutability.is_mut()))
                        .set("nested", J::Bool(nested))
                        .set("thread_local", J::Bool(tcx.is_thread_local_static(did)))
                        .set("freeze", is_freeze(tcx, env, t))
                        .set("from_expansion", J::Bool(tcx.def_span(did).from_expansion()))
                        .set("file", J::s(l.file))
                        .set("line", J::UInt(l.line as u128)),
                );
            }
            DefKind::Struct | DefKind::Enum | DefKind::Union => {
                local_adt_dids.push(did);
                let env = ty::TypingEnv::post_analysis(tcx, did);
                let def = tcx.adt_def(did);
                let ident_args = ty::GenericArgs::identity_for_item(tcx, did);
                let mut variants = Vec::new();
                let discrs: Vec<_> = if def.is_enum() { def.discriminants(tcx).collect() } else { vec![] };
                for (vi, v) in def.variants().iter_enumerated() {
                    let discr = discrs.iter().find(|(i, _)| *i == vi).map(|(_, d)| d.val);
                    let fields: Vec<J> = v
                        .fields
                        .iter()
                        .map(|f| {
                            let ft0 = f.ty(tcx, ident_args);
                            let ft = tcx
                                .try_normalize_erasing_regions(env, ty::Unnormalized::new_wip(ft0))
                                .unwrap_or(ft0);
                            J::obj()
                                .set("name", J::s(f.name.to_string()))
                                .set("ty", J::s(ft.to_string()))
                                .set("tyt", ty_tree(tcx, ft, 0))
                                .set("freeze", is_freeze(tcx, env, ft))
                                .set("vis", J::s(match f.vis {
                                    ty::Visibility::Public => "pub".to_string(),
                                    ty::Visibility::Restricted(m) => {
                                        if m.is_crate_root() { "crate".to_string() } else { format!("in:{}", tcx.def_path_str(m)) }
                                    }
                                }))
                        })
                        .collect();
                    variants.push(
                        J::obj()
                            .set("name", J::s(v.name.to_string()))
                            .set("discr", match discr { Some(d) => J::UInt(d), None => J::Null })
                            .set("fields", J::Arr(fields)),
                    );
                }
                let self_ty = tcx.type_of(did).instantiate_identity().skip_norm_wip();
                adts.push(
                    J::obj()
                        .set("path", J::s(tcx.def_path_str(did)))
                        .set("kind", J::s(format!("{:?}", kind)))
                        .set("vis", J::s(vis_str(tcx, did)))
                        .set("generic", J::Bool(tcx.generics_of(did).requires_monomorphization(tcx)))
                        .set("freeze", is_freeze(tcx, env, self_ty))
                        .set("variants", J::Arr(variants))
                        .set("file", J::s(l.file))
                        .set("line", J::UInt(l.line as u128)),
                );
            }
            DefKind::Impl { of_trait } => {
                let self_ty = tcx.type_of(did).instantiate_identity().skip_norm_wip();
                let mut o = J::obj()
                    .set("self_ty", J::s(self_ty.to_string()))
                    .set("file", J::s(l.file))
                    .set("line", J::UInt(l.line as u128))
                    .set("from_expansion", J::Bool(tcx.def_span(did).from_expansion()));
                if of_trait {
                    let tr = tcx.impl_trait_ref(did).instantiate_identity().skip_norm_wip();
                    o.put("trait", J::s(tcx.def_path_str(tr.def_id)));
                    o.put("trait_ref", J::s(tr.to_string()));
                    let hdr = tcx.impl_trait_header(did);
                    o.put("unsafe", J::Bool(hdr.safety.is_unsafe()));
                    o.put("polarity", J::s(format!("{:?}", hdr.polarity)));
                } else {
                    o.put("trait", J::Null);
                    o.put("unsafe", J::Bool(false));
                }
                let assoc: Vec<J> = tcx
                    .associated_item_def_ids(did)
                    .iter()
                    .map(|d| J::s(tcx.def_path_str(*d)))
                    .collect();
                o.put("items", J::Arr(assoc));
                impls.push(o);
            }
            DefKind::ForeignMod => {
                unsafes.push(
                    J::obj()
                        .set("kind", J::s("extern"))
                        .set("user", J::Bool(true))
                        .set("from_expansion", J::Bool(tcx.def_span(did).from_expansion()))
                        .set("file", J::s(l.file))
                        .set("line", J::UInt(l.line as u128))
                        .set("in_fn", J::s(tcx.def_path_str(did))),
                );
            }
            DefKind::Fn | DefKind::AssocFn => {
                let sig = tcx.fn_sig(did).instantiate_identity().skip_norm_wip();
                if sig.safety().is_unsafe() {
                    unsafes.push(
                        J::obj()
                            .set("kind", J::s("fn"))
                            .set("user", J::Bool(true))
                            .set("from_expansion", J::Bool(tcx.def_span(did).from_expansion()))
                            .set("file", J::s(l.file))
                            .set("line", J::UInt(l.line as u128))
                            .set("in_fn", J::s(tcx.def_path_str(did))),
                    );
                }
                items.push(
                    J::obj()
                        .set("path", J::s(tcx.def_path_str(did)))
                        .set("kind", J::s(format!("{:?}", kind)))
                        .set("vis", J::s(vis_str(tcx, did)))
                        .set("has_body", J::Bool(tcx.is_mir_available(did))),
                );
            }
            _ => {}
        }
    }
    // unsafe impls
    for i in &impls {
        if let J::Obj(kv) = i {
            let is_unsafe = kv.iter().any(|(k, v)| k == "unsafe" && matches!(v, J::Bool(true)));
            let fe = kv.iter().any(|(k, v)| k == "from_expansion" && matches!(v, J::Bool(true)));
            if is_unsafe {
                let get = |n: &str| kv.iter().find(|(k, _)| k == n).map(|(_, v)| v.clone()).unwrap_or(J::Null);
                unsafes.push(
                    J::obj()
                        .set("kind", J::s("impl"))
                        .set("user", J::Bool(!fe))
                        .set("from_expansion", J::Bool(fe))
                        .set("file", get("file"))
                        .set("line", get("line"))
                        .set("in_fn", get("trait_ref")),
                );
            }
        }
    }
    // unsafe blocks
    for ldid in tcx.hir_body_owners() {
        let did = ldid.to_def_id();
        let body = tcx.hir_body_owned_by(ldid);
        let mut v = UnsafeVisitor { tcx, out: Vec::new(), cur: tcx.def_path_str(did) };
        rustc_hir::intravisit::Visitor::visit_body(&mut v, body);
        unsafes.extend(v.out);
    }

    // meta
    let sm = tcx.sess.source_map();
    let mut sources = Vec::new();
    for f in sm.files().iter() {
        if let rustc_span::FileName::Real(r) = &f.name {
            if let Some(p) = r.local_path() {
                if f.cnum == LOCAL_CRATE {
                    sources.push(J::Arr(vec![
                        J::s(p.to_string_lossy().into_owned()),
                        J::s(hex(f.src_hash.hash_bytes())),
                    ]));
                }
            }
        }
    }
    let mut cfgs: Vec<String> = tcx
        .sess
        .config
        .iter()
        .map(|(k, v)| match v {
            Some(v) => format!("{}={}", k, v),
            None => k.to_string(),
        })
        .filter(|s| {
            s.starts_with("feature=") || s == "debug_assertions" || s == "fast_qr_verif" || s == "test"
                || s.starts_with("target_arch=") || s.starts_with("target_pointer_width=") || s == "overflow_checks"
        })
        .collect();
    cfgs.sort();
    let meta = J::obj()
        .set("config", J::s(std::env::var("FQR_CONFIG").unwrap_or_default()))
        .set("nonce", J::s(std::env::var("FQR_NONCE").unwrap_or_default()))
        .set("crate", J::s(tcx.crate_name(LOCAL_CRATE).to_string()))
        .set("cfgs", J::Arr(cfgs.into_iter().map(J::s).collect()))
        .set("debug_assertions", J::Bool(tcx.sess.opts.debug_assertions))
        .set("overflow_checks", J::Bool(tcx.sess.overflow_checks()))
        .set("mir_opt_level", J::UInt(tcx.sess.mir_opt_level() as u128))
        .set("rustc", J::s(option_env!("CFG_VERSION").unwrap_or("nightly").to_string()))
        .set("sources", J::Arr(sources));

    // external (non-std) ADTs reachable from the crate's own types through fields: their definitions come from the
    // dependency's metadata, so the type-graph rules can walk them instead of trusting a list of names
    {
        fn adts_in<'tcx>(t: Ty<'tcx>, out: &mut Vec<DefId>, depth: u32) {
            if depth > 8 {
                return;
            }
            match t.kind() {
                ty::Adt(def, args) => {
                    out.push(def.did());
                    for a in args.types() {
                        adts_in(a, out, depth + 1);
                    }
                }
                ty::Ref(_, inner, _) | ty::RawPtr(inner, _) | ty::Slice(inner) | ty::Array(inner, _) => adts_in(*inner, out, depth + 1),
                ty::Tuple(ts) => {
                    for e in ts.iter() {
                        adts_in(e, out, depth + 1);
                    }
                }
                _ => {}
            }
        }
        let mut seen: std::collections::HashSet<DefId> = std::collections::HashSet::new();
        let mut work: Vec<DefId> = local_adt_dids.clone();
        let mut ext_done = 0usize;
        while let Some(did) = work.pop() {
            if !seen.insert(did) || ext_done > 300 {
                continue;
            }
            let krate_name = tcx.crate_name(did.krate);
            let is_std = matches!(krate_name.as_str(), "std" | "core" | "alloc");
            if is_std {
                continue;
            }
            let def = tcx.adt_def(did);
            let ident_args = ty::GenericArgs::identity_for_item(tcx, did);
            let mut found = Vec::new();
            let mut variants = Vec::new();
            let discrs: Vec<_> = if def.is_enum() { def.discriminants(tcx).collect() } else { vec![] };
            for (vi, v) in def.variants().iter_enumerated() {
                let discr = discrs.iter().find(|(i, _)| *i == vi).map(|(_, d)| d.val);
                let mut fields = Vec::new();
                for f in v.fields.iter() {
                    let ft = f.ty(tcx, ident_args);
                    adts_in(ft, &mut found, 0);
                    fields.push(
                        J::obj()
                            .set("name", J::s(f.name.to_string()))
                            .set("ty", J::s(ft.to_string()))
                            .set("tyt", ty_tree(tcx, ft, 0)),
                    );
                }
                variants.push(
                    J::obj()
                        .set("name", J::s(v.name.to_string()))
                        .set("discr", match discr { Some(d) => J::UInt(d), None => J::Null })
                        .set("fields", J::Arr(fields)),
                );
            }
            for d in found {
                work.push(d);
            }
            if !did.is_local() {
                ext_done += 1;
                adts.push(
                    J::obj()
                        .set("path", J::s(tcx.def_path_str(did)))
                        .set("kind", J::s(format!("{:?}", tcx.def_kind(did))))
                        .set("vis", J::s("external".to_string()))
                        .set("external", J::Bool(true))
                        .set("generic", J::Bool(tcx.generics_of(did).requires_monomorphization(tcx)))
                        .set("freeze", J::Null)
                        .set("variants", J::Arr(variants))
                        .set("file", J::s(String::new()))
                        .set("line", J::UInt(0)),
                );
            }
        }
    }

    J::obj()
        .set("meta", meta)
        .set("fns", J::Arr(fns))
        .set("consts", J::Arr(consts))
        .set("statics", J::Arr(statics))
        .set("adts", J::Arr(adts))
        .set("impls", J::Arr(impls))
        .set("unsafe", J::Arr(unsafes))
        .set("items", J::Arr(items))
}

impl rustc_driver::Callbacks for Cb {
    fn after_analysis<'tcx>(
        &mut self,
        _c: &rustc_interface::interface::Compiler,
        tcx: TyCtxt<'tcx>,
    ) -> Compilation {
        let want = std::env::var("FQR_CRATE").unwrap_or_else(|_| "fast_qr".to_string());
        let krate = tcx.crate_name(LOCAL_CRATE);
        if krate.as_str() != want {
            return Compilation::Continue;
        }
        // only the lib target (not build scripts / tests / examples)
        let Ok(out_path) = std::env::var("FQR_FACTS_OUT") else {
            return Compilation::Continue;
        };
        let j = rustc_middle::ty::print::with_no_trimmed_paths!(collect(tcx));
        let mut s = String::with_capacity(1 << 22);
        j.write(&mut s);
        s.push('\n');
        // one write per process
        if let Err(e) = std::fs::write(&out_path, s.as_bytes()) {
            eprintln!("fqr-facts: cannot write {}: {}", out_path, e);
            std::process::exit(3);
        }
        Compilation::Continue
    }
}

fn main() {
    let mut args: Vec<String> = std::env::args().collect();
    // RUSTC_WORKSPACE_WRAPPER passes the real rustc as argv[1]
    if args.len() > 1 && (args[1].ends_with("rustc") || args[1].contains("/rustc")) {
        args.remove(1);
    }
    rustc_driver::run_compiler(&args, &mut Cb);
}
